#!/usr/bin/env bash
# tools/confirm_seed.sh <Cxx> [suffix] — confirm a sub-agent's seeded defect in its scratch worktree
# /tmp/seed-<Cxx><suffix>: (1) suite passes with the change, (2) demo fails with it, (3) demo passes without it;
# then store it under /verif/seeded/<Cxx><suffix>/ and run /verif's checks against it (apply to /repo, run, undo).
set -u
ID="$1"; SUF="${2:-}"; W=/tmp/seed-$ID$SUF; S=$W/SEEDED; OUT=/verif/seeded/$ID$SUF
[ -f "$S/patch.diff" ] || { echo "no patch in $S"; exit 3; }
cd "$W"
RUN=$(grep -hoE "cargo (test|nextest)[^\`]*seeded_demo[^\`]*" "$S/demo/RUN.md" "$S/NOTES.md" 2>/dev/null | head -1)
[ -n "$RUN" ] || RUN="cargo test --offline --test seeded_demo"
DEMO=$(ls tests/seeded_demo*.rs crates/*/tests/seeded_demo*.rs 2>/dev/null | head -1)
echo "demo file: $DEMO ; run: $RUN"
# make sure the change is applied
git apply --check -R "$S/patch.diff" 2>/dev/null || git apply "$S/patch.diff" 2>/dev/null
# (1) suite with change, demo moved aside
mkdir -p /tmp/seed-aside-$ID$SUF; mv "$DEMO" /tmp/seed-aside-$ID$SUF/ 2>/dev/null
suite=$(cargo nextest run --workspace --no-fail-fast --offline --test-threads 8 2>&1 | grep -E "Summary|tests run" | tail -1)
mv /tmp/seed-aside-$ID$SUF/$(basename "$DEMO") "$DEMO"; rmdir /tmp/seed-aside-$ID$SUF
echo "suite with change: $suite"
# (2) demo with change
with=$($RUN 2>&1 | grep -E "^test result" | tail -1)
echo "demo with change: $with"
# (3) demo without change
git apply -R "$S/patch.diff"
without=$($RUN 2>&1 | grep -E "^test result" | tail -1)
echo "demo without change: $without"
git apply "$S/patch.diff"
mkdir -p "$OUT/demo"
cp "$S/patch.diff" "$OUT/patch.diff"; cp -r "$S/demo/." "$OUT/demo/"; cp "$S/NOTES.md" "$OUT/NOTES.md" 2>/dev/null
echo "{\"suite_with_change\": \"$suite\", \"demo_with_change\": \"$with\", \"demo_without_change\": \"$without\", \"demo_cmd\": \"$RUN\"}" > "$OUT/.confirm.json"
