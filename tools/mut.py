#!/usr/bin/env python3
"""tools/mut.py <name> <prop[,prop]> <file> <old> <new> [tier]
Create /verif/mutants/<name>.patch from a textual replacement in /repo (first occurrence),
run the named checks against it, and undo. Prints one line per check."""
import subprocess, sys, os
name, props, path, old, new = sys.argv[1:6]
tier = sys.argv[6] if len(sys.argv) > 6 else 'quick'
full = os.path.join('/repo', path)
if subprocess.run(['git', '-C', '/repo', 'diff', '--quiet']).returncode != 0:
    print('repo dirty; refusing'); sys.exit(3)
s = open(full).read()
if old not in s:
    print('OLD TEXT NOT FOUND'); sys.exit(4)
open(full, 'w').write(s.replace(old, new, 1))
try:
    diff = subprocess.run(['git', '-C', '/repo', 'diff'], capture_output=True, text=True).stdout
    open(f'/verif/mutants/{name}.patch', 'w').write(diff)
    for prop in props.split(','):
        r = subprocess.run(['./check', prop, tier], cwd='/verif', capture_output=True, text=True, timeout=3000)
        sigs = sorted(set(l.split('signature=')[1].split()[0] for l in (r.stdout + r.stderr).splitlines() if 'violation signature=' in l))
        verdict = [l for l in r.stdout.splitlines() if 'verdict=' in l]
        print(f'{name} {prop} exit={r.returncode} sigs={sigs[:6]} :: {verdict[-1] if verdict else r.stdout[-300:]}')
finally:
    subprocess.run(['git', '-C', '/repo', 'checkout', '--', '.'])
