#!/usr/bin/env bash
# tools/run_all.sh <tier> <seed...> — run every claimed check at the given seeds; one summary line each.
TIER="${1:-quick}"; shift
SEEDS="${*:-1}"
cd "$(dirname "$0")/.."
for s in $SEEDS; do
  for p in $(cat tools/built.txt); do
    start=$(date +%s.%N)
    out=$(VERIF_SEED=$s ./check "$p" "$TIER" 2>&1); rc=$?
    end=$(date +%s.%N)
    line=$(echo "$out" | grep -E "verdict=" | tail -1)
    printf "seed=%s rc=%s t=%.1fs %s\n" "$s" "$rc" "$(echo "$end - $start" | bc)" "$line"
    if [ $rc -ne 0 ]; then echo "$out" | grep -E "VIOLATION|INCONCLUSIVE|violation signature" | cut -c1-400 | head -5; fi
  done
done
