#!/usr/bin/env bash
# tools/run_benign.sh <patch-file> [props...] — false-alarm test: apply a PROPERTY-PRESERVING change to /repo,
# run the quick checks (all 20 by default), undo. Any exit code other than 0 is printed; a VIOLATION on such a
# patch is a false alarm of the machinery (or the patch is not as benign as claimed - to be triaged by hand).
set -u
P="$(readlink -f "$1")"; shift
PROPS="${*:-$(cat "$(dirname "$0")/built.txt")}"
cd /repo || exit 3
if ! git diff --quiet; then echo "/repo dirty; refusing"; exit 3; fi
if ! git apply --check "$P" 2>/dev/null; then echo "PATCH-DOES-NOT-APPLY $P"; exit 4; fi
git apply "$P"
trap 'git -C /repo checkout -- . ; git -C /repo clean -fdq -- src crates tests 2>/dev/null' EXIT
cd /verif
bad=0
for prop in $PROPS; do
  out=$(VERIF_SEED="${VERIF_SEED:-1}" timeout 1500 ./check "$prop" quick 2>&1); rc=$?
  if [ $rc -ne 0 ]; then
    bad=$((bad+1))
    sigs=$(echo "$out" | grep -o "violation signature=[A-Za-z0-9._-]*" | sed 's/violation signature=//' | sort -u | head -5 | tr '\n' ' ')
    echo "ALARM $(basename "$(dirname "$P")")/$(basename "$P") $prop rc=$rc sigs=[$sigs] $(echo "$out" | grep -E 'INCONCLUSIVE' | head -2 | tr '\n' ' ' | cut -c1-200)"
  fi
done
echo "benign $(basename "$(dirname "$P")")/$(basename "$P"): $bad of $(echo $PROPS | wc -w) checks not silent"
