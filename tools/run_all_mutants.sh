#!/usr/bin/env bash
# tools/run_all_mutants.sh [tier] — regression over the hand-made mutants: every /verif/mutants/<cNN|live>-*.patch
# is applied to /repo, the check of the property in its name is run (live-* patches name theirs in PROPS below),
# and the patch is undone. One line per mutant.
TIER="${1:-quick}"
cd "$(dirname "$0")/.."
declare -A LIVE=( [live-no-reader-restart]=C08 [live-no-flush-timer]=C01 [live-refused-reload-applied]=C19 [live-reader-first-of-batch]=C09 [live-drain-discards-rest]=C09 [live-stale-config-snapshot-for-routing]=C18 )
# Survivors that are expected and documented in DESIGN.md 9.4: an edit that turned out to be a no-op, a change that
# is equivalent for the property in its name (caught by C19's check instead), and the quality-cache interval,
# which C11 deliberately does not constrain.
EXPECTED_SURVIVORS=" c05-probe-tracked c05-remove-connection-noop c11-cache-interval "
missed=0; n=0
for p in mutants/*.patch; do
  name=$(basename "$p" .patch)
  if [[ "$name" == live-* ]]; then prop=${LIVE[$name]:-}; else prop=$(echo "${name:0:3}" | tr a-z A-Z); fi
  [ -n "$prop" ] || continue
  if ! git -C /repo diff --quiet; then echo "/repo dirty; stopping"; exit 3; fi
  if ! git -C /repo apply --check "$PWD/$p" 2>/dev/null; then echo "SKIP    $name (does not apply)"; continue; fi
  git -C /repo apply "$PWD/$p"
  out=$(timeout 1500 ./check "$prop" "$TIER" 2>&1); rc=$?
  git -C /repo checkout -- .
  n=$((n+1))
  sig=$(echo "$out" | grep -o "violation signature=[A-Za-z0-9._-]*" | sed 's/violation signature=//' | sort -u | head -3 | tr '\n' ' ')
  if [ $rc -eq 1 ]; then echo "caught  $name $prop [$sig]"
  elif [[ "$EXPECTED_SURVIVORS" == *" $name "* ]] && [ $rc -eq 0 ]; then echo "silent (expected) $name $prop"
  else echo "SURVIVED $name $prop rc=$rc"; missed=$((missed+1)); fi
done
echo "mutants: $n run, $missed survived"
