#!/usr/bin/env bash
# tools/run_all_mutants.sh [tier] — regression over the hand-made mutants: every /verif/mutants/<cNN|live>-*.patch
# is applied to /repo, the check of the property in its name is run (live-* patches name theirs in PROPS below),
# and the patch is undone. One line per mutant.
TIER="${1:-quick}"
cd "$(dirname "$0")/.."
declare -A LIVE=( [live-no-reader-restart]=C08 [live-no-flush-timer]=C01 [live-refused-reload-applied]=C19 [live-reader-first-of-batch]=C09 [live-drain-discards-rest]=C09 [live-stale-config-snapshot-for-routing]=C18 )
missed=0; n=0
for p in mutants/*.patch; do
  name=$(basename "$p" .patch)
  if [[ "$name" == live-* ]]; then prop=${LIVE[$name]:-}; else prop=$(echo "${name:0:3}" | tr a-z A-Z); fi
  [ -n "$prop" ] || continue
  if ! git -C /repo diff --quiet; then echo "/repo dirty; stopping"; exit 3; fi
  if ! git -C /repo apply --check "$PWD/$p" 2>/dev/null; then echo "SKIP    $name (does not apply)"; continue; fi
  git -C /repo apply "$PWD/$p"
  out=$(timeout 1500 ./check "$prop" "$TIER" 2>&1); rc=$?
  git -C /repo checkout -- .
  n=$((n+1))
  sig=$(echo "$out" | grep -o "violation signature=[A-Za-z0-9._-]*" | sed 's/violation signature=//' | sort -u | head -3 | tr '\n' ' ')
  if [ $rc -eq 1 ]; then echo "caught  $name $prop [$sig]"; else echo "SURVIVED $name $prop rc=$rc"; missed=$((missed+1)); fi
done
echo "mutants: $n run, $missed survived"
