#!/usr/bin/env bash
# tools/run_all_seeded.sh [tier] — regression over the seeded-defect corpus: every /verif/seeded/<name>/patch.diff
# is applied to /repo, its property's check is run, and the patch is undone. One line per seed; exit 1 if any
# seed is NOT caught (exit code of the check != 1).
TIER="${1:-quick}"
cd "$(dirname "$0")/.."
missed=0; n=0
for d in seeded/*/; do
  name=$(basename "$d"); prop=${name:0:3}
  [ -f "$d/patch.diff" ] || continue
  line=$(tools/run_seeded.sh "$name" "$prop" "$TIER" 2>&1 | grep -v WARNING | tail -1)
  n=$((n+1))
  case "$line" in
    *"exit=1 "*) echo "caught  $line" | cut -c1-260 ;;
    *) echo "MISSED  $line" | cut -c1-260; missed=$((missed+1)) ;;
  esac
done
echo "seeded defects: $n run, $missed not caught"
[ $missed -eq 0 ]
