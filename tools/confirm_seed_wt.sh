#!/usr/bin/env bash
# tools/confirm_seed_wt.sh <worktree> <seed-id> — confirm a sub-agent's seeded defect delivered in its scratch
# worktree as <worktree>/patch.diff plus either tests/seeded_demo.rs (integration demo) or demo.diff (in-crate
# test whose name contains `seeded_demo`):
#  (1) the existing suite passes with the change (demo moved aside / demo.diff reversed), (2) the demo fails
#  with it, (3) the demo passes without it. Stores patch + demo under /verif/seeded/<seed-id>/ with the three
#  result lines in .confirm.json (read by whoever writes meta.json).
set -u
W="$1"; ID="$2"; OUT=/verif/seeded/$ID
[ -f "$W/patch.diff" ] || { echo "no patch.diff in $W"; exit 3; }
cd "$W" || exit 3
DEMO=$(ls tests/seeded_demo*.rs crates/*/tests/seeded_demo*.rs 2>/dev/null | head -1)
INCRATE=0
if [ -z "$DEMO" ]; then
  [ -f demo.diff ] || { echo "no demo test and no demo.diff in $W"; exit 3; }
  INCRATE=1
  PKGFLAG=""; grep -q '^+++ b/crates/' demo.diff && PKGFLAG="-p $(grep -m1 '^+++ b/crates/' demo.diff | cut -d/ -f3)"
  RUN="cargo test --offline ${DEMO_FLAGS:-} $PKGFLAG --lib seeded_demo"
else
  case "$DEMO" in
    crates/*) RUN="cargo test --offline -p $(echo "$DEMO" | cut -d/ -f2) --test $(basename "$DEMO" .rs)";;
    *) RUN="cargo test --offline ${DEMO_FLAGS:-} --test $(basename "$DEMO" .rs)";;
  esac
fi
git apply --check -R patch.diff 2>/dev/null || git apply patch.diff || { echo "patch does not apply"; exit 4; }
# (1) suite with the change, without the demo
if [ $INCRATE = 1 ]; then git apply --check -R demo.diff 2>/dev/null && git apply -R demo.diff
else mkdir -p "$W/.aside"; mv "$DEMO" "$W/.aside/"; fi
suite=$(cargo nextest run --workspace --no-fail-fast --offline --test-threads 8 2>&1 | grep -E "Summary|tests run" | tail -1)
if [ $INCRATE = 1 ]; then git apply demo.diff || { echo "demo.diff does not apply on top of the patch"; exit 4; }
else mv "$W/.aside/$(basename "$DEMO")" "$DEMO"; rmdir "$W/.aside"; fi
echo "suite with change: $suite"
with=$($RUN 2>&1 | grep -E "^test result" | grep -v " 0 passed; 0 failed" | tail -1); echo "demo with change: $with"
git apply -R patch.diff || { echo "cannot reverse patch.diff alone (overlaps demo.diff?)"; exit 4; }
without=$($RUN 2>&1 | grep -E "^test result" | grep -v " 0 passed; 0 failed" | tail -1); echo "demo without change: $without"
git apply patch.diff
mkdir -p "$OUT/demo"; cp patch.diff "$OUT/patch.diff"
if [ $INCRATE = 1 ]; then cp demo.diff "$OUT/demo/demo.diff"; echo "in-crate demo: git apply demo.diff, then: $RUN" > "$OUT/demo/RUN.md"
else cp "$DEMO" "$OUT/demo/"; echo "run from the repository root with the demo placed at $DEMO: $RUN" > "$OUT/demo/RUN.md"; fi
printf '{"suite_with_change": "%s", "demo_with_change": "%s", "demo_without_change": "%s", "demo_cmd": "%s"}\n' "$suite" "$with" "$without" "$RUN" > "$OUT/.confirm.json"
