#!/usr/bin/env bash
# tools/confirm_seed_wt.sh <worktree> <seed-id> — confirm a sub-agent's seeded defect that was delivered as
# <worktree>/patch.diff + <worktree>/tests/seeded_demo.rs (round 7 layout):
#  (1) the existing suite passes with the change (demo moved aside), (2) the demo fails with it,
#  (3) the demo passes without it. Stores patch + demo under /verif/seeded/<seed-id>/ and prints the three results.
set -u
W="$1"; ID="$2"; OUT=/verif/seeded/$ID
[ -f "$W/patch.diff" ] || { echo "no patch.diff in $W"; exit 3; }
cd "$W" || exit 3
DEMO=$(ls tests/seeded_demo*.rs crates/*/tests/seeded_demo*.rs 2>/dev/null | head -1)
[ -n "$DEMO" ] || { echo "no demo test in $W"; exit 3; }
case "$DEMO" in
  crates/*) PKG=$(echo "$DEMO" | cut -d/ -f2); RUN="cargo test --offline -p $PKG --test $(basename "$DEMO" .rs)";;
  *) RUN="cargo test --offline --test $(basename "$DEMO" .rs)";;
esac
git apply --check -R patch.diff 2>/dev/null || git apply patch.diff || { echo "patch does not apply"; exit 4; }
mkdir -p "$W/.aside"; mv "$DEMO" "$W/.aside/"
suite=$(cargo nextest run --workspace --no-fail-fast --offline --test-threads 8 2>&1 | grep -E "Summary|tests run" | tail -1)
mv "$W/.aside/$(basename "$DEMO")" "$DEMO"; rmdir "$W/.aside"
echo "suite with change: $suite"
with=$($RUN 2>&1 | grep -E "^test result" | tail -1); echo "demo with change: $with"
git apply -R patch.diff
without=$($RUN 2>&1 | grep -E "^test result" | tail -1); echo "demo without change: $without"
git apply patch.diff
mkdir -p "$OUT/demo"; cp patch.diff "$OUT/patch.diff"; cp "$DEMO" "$OUT/demo/"
echo "run from the repository root with the demo placed at $DEMO: $RUN" > "$OUT/demo/RUN.md"
printf '{"suite_with_change": "%s", "demo_with_change": "%s", "demo_without_change": "%s", "demo_cmd": "%s"}\n' "$suite" "$with" "$without" "$RUN" > "$OUT/.confirm.json"
