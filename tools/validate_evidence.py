#!/usr/bin/env python3
"""Validate an evidence file against /root/.vp/EVIDENCE.schema.json (or the copy in tools/)."""
import json, os, sys
path = sys.argv[1]
here = os.path.dirname(os.path.abspath(__file__))
schema_path = '/root/.vp/EVIDENCE.schema.json'
if not os.path.exists(schema_path):
    schema_path = os.path.join(here, 'EVIDENCE.schema.json')
ev = json.load(open(path))
try:
    import jsonschema
    jsonschema.validate(ev, json.load(open(schema_path)))
except ImportError:
    # minimal structural fallback
    for k in ('property_id', 'tier', 'seed', 'level', 'coverage', 'wall_s'):
        assert k in ev, k
    c = ev['coverage']
    assert c['evaluations'] >= 1 and c['distinct_nontrivial'] >= 2 and len(c['samples']) >= 1 and isinstance(c['rule'], str)
except Exception as e:  # noqa
    print('evidence validation failed:', str(e)[:400])
    sys.exit(1)
sys.exit(0)
