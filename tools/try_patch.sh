#!/usr/bin/env bash
# tools/try_patch.sh <patch.diff> <Cxx> [tier] — apply a breaking patch to /repo, run one check, undo.
set -u
PATCH="$1"; PROP="$2"; TIER="${3:-quick}"
cd /repo || exit 3
if ! git diff --quiet; then echo "/repo working tree is dirty; refusing"; exit 3; fi
if ! git apply --check "$PATCH" 2>/dev/null; then echo "PATCH-DOES-NOT-APPLY $PATCH"; exit 4; fi
git apply "$PATCH"
cd /verif
VERIF_SEED="${VERIF_SEED:-1}" timeout 3000 ./check "$PROP" "$TIER" 2>&1 | grep -E "VIOLATION|KNOWN-FINDING|INCONCLUSIVE|verdict=|violation signature" | head -${LINES_MAX:-12}
rc=${PIPESTATUS[0]}
git -C /repo checkout -- .
echo "exit=$rc"
