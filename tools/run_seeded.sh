#!/usr/bin/env bash
# tools/run_seeded.sh <seed-dir-name> <prop[,prop]> [tier] — apply /verif/seeded/<name>/patch.diff to /repo,
# run the named checks, undo. Prints one line per check.
set -u
NAME="$1"; PROPS="$2"; TIER="${3:-quick}"
P=/verif/seeded/$NAME/patch.diff
cd /repo || exit 3
if ! git diff --quiet; then echo "/repo dirty; refusing"; exit 3; fi
if ! git apply --check "$P" 2>/dev/null; then echo "PATCH-DOES-NOT-APPLY $P"; exit 4; fi
git apply "$P"
trap 'git -C /repo checkout -- . ; git -C /repo clean -fdq -- src crates tests 2>/dev/null' EXIT
cd /verif
for prop in ${PROPS//,/ }; do
  out=$(VERIF_SEED="${VERIF_SEED:-1}" timeout 3000 ./check "$prop" "$TIER" 2>&1); rc=$?
  sigs=$(echo "$out" | grep -o "violation signature=[A-Za-z0-9._-]*" | sed 's/violation signature=//' | sort -u | head -6 | tr '\n' ' ')
  echo "$NAME $prop $TIER exit=$rc sigs=[$sigs] :: $(echo "$out" | grep -E 'verdict=' | tail -1 | cut -c1-160)"
done
