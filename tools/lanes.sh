#!/usr/bin/env bash
# tools/lanes.sh <Cxx> <tier> <seed> — sanitizer / interpreter lanes for one property.
# Each lane re-runs a reduced workload of the SAME vcheck binary under a tool and writes
# evidence/.lane-<Cxx>-<lane>.result (JSON: tool, status ok|violation|inconclusive|unavailable, reports, detail).
# vcheck folds these into the evidence file and the verdict (a tool report is a violation of the property
# whose workload produced it; a tool that cannot run is "unavailable" -> inconclusive only where required).
set -u
PROP="$1"; TIER="$2"; SEED="$3"
ROOT="$(cd "$(dirname "$0")/.." && pwd)"; H="$ROOT/harness"; EV="$ROOT/evidence"
mkdir -p "$EV"; rm -f "$EV"/.lane-"$PROP"-*.result "$EV"/.lane-"$PROP"-*.json
export CARGO_NET_OFFLINE=true

emit() { # lane tool status reports detail ops
  python3 - "$EV/.lane-$PROP-$1.result" "$1" "$2" "$3" "$4" "$5" "${6:-0}" <<'PY'
import json,sys
path,lane,tool,status,reports,detail,ops=sys.argv[1:8]
json.dump({"lane":lane,"tool":tool,"status":status,"reports":int(reports),"detail":detail[:1500],"ops_under_tool":int(ops)},open(path,"w"))
PY
}
ops_of() { # evaluations recorded by the lane run's own evidence file
  python3 -c "import json,sys;print(json.load(open(sys.argv[1]))['coverage']['evaluations'])" "$EV/.lane-$PROP-$1.json" 2>/dev/null || echo 0
}

lane_miri() { # scale
  local log="$H/target/lane-miri-$PROP.log"
  ( cd "$H" && MIRIFLAGS="-Zmiri-disable-isolation -Zmiri-ignore-leaks" timeout "${MIRI_TIMEOUT:-1500}" \
      cargo +nightly miri run --offline --bin vcheck -- "$PROP" --lane miri --seed "$SEED" --threads 1 --scale "$1" ) >"$log" 2>&1
  local rc=$?
  if grep -q "Undefined Behavior\|error: unsupported operation\|data race" "$log"; then
    emit miri "miri (nightly)" violation "$(grep -c 'Undefined Behavior\|data race' "$log")" "$(grep -m3 -A6 'Undefined Behavior\|data race\|unsupported operation' "$log" | tr '\n' ' ')" "$(ops_of miri)"
  elif [ $rc -eq 124 ]; then emit miri "miri (nightly)" inconclusive 0 "timeout" "$(ops_of miri)"
  elif [ $rc -eq 1 ] && grep -q "VIOLATION" "$log"; then emit miri "miri (nightly)" violation 1 "functional oracle fired under miri: $(grep -m1 'violation signature' "$log")" "$(ops_of miri)"
  elif ! grep -q "verdict=" "$log"; then emit miri "miri (nightly)" unavailable 0 "$(tail -3 "$log" | tr '\n' ' ')" 0
  else emit miri "miri (nightly)" ok 0 "$(grep -m1 'verdict=' "$log")" "$(ops_of miri)"; fi
}

lane_memcheck() { # scale
  local log="$H/target/lane-memcheck-$PROP.log"
  command -v valgrind >/dev/null || { emit memcheck valgrind unavailable 0 "valgrind not installed" 0; return; }
  ( cd "$ROOT" && timeout "${VG_TIMEOUT:-1800}" valgrind --error-exitcode=99 --errors-for-leak-kinds=none --leak-check=no -q \
      "$H/target/verif/vcheck" "$PROP" --lane memcheck --seed "$SEED" --threads 2 --scale "$1" ) >"$log" 2>&1
  local rc=$?
  if [ $rc -eq 99 ] || grep -q "== Invalid \|== Conditional jump\|== Use of uninit\|== Syscall param" "$log"; then
    emit memcheck "valgrind memcheck" violation "$(grep -c '== Invalid \|== Conditional jump\|== Use of uninit\|== Syscall param' "$log")" "$(grep -m2 -A8 '== Invalid \|== Conditional jump\|== Use of uninit\|== Syscall param' "$log" | tr '\n' ' ')" "$(ops_of memcheck)"
  elif [ $rc -eq 124 ]; then emit memcheck "valgrind memcheck" inconclusive 0 "timeout" "$(ops_of memcheck)"
  elif [ $rc -eq 1 ] && grep -q "VIOLATION" "$log"; then emit memcheck "valgrind memcheck" violation 1 "functional oracle fired under memcheck: $(grep -m1 'violation signature' "$log")" "$(ops_of memcheck)"
  elif ! grep -q "verdict=" "$log"; then emit memcheck "valgrind memcheck" unavailable 0 "$(tail -3 "$log" | tr '\n' ' ')" 0
  else emit memcheck "valgrind memcheck" ok 0 "$(grep -m1 'verdict=' "$log")" "$(ops_of memcheck)"; fi
}

lane_san() { # name(asan|tsan) scale
  local name="$1" scale="$2" log="$H/target/lane-$1-$PROP.log" flags tdir extra
  if [ "$name" = asan ]; then flags="-Zsanitizer=address -Cforce-frame-pointers=yes"; extra=""; export ASAN_OPTIONS="halt_on_error=1:detect_leaks=0"
  else flags="-Zsanitizer=thread"; extra="-Zbuild-std"; export TSAN_OPTIONS="halt_on_error=1:report_signal_unsafe=0"; fi
  tdir="$H/target/$name"
  ( cd "$H" && RUSTFLAGS="$flags" timeout 1800 cargo +nightly build --offline $extra --target x86_64-unknown-linux-gnu --profile verif --bin vcheck --bin vctl --bin vlive --target-dir "$tdir" ) >"$log" 2>&1
  if [ $? -ne 0 ]; then emit "$name" "rustc -Zsanitizer ($name)" unavailable 0 "build failed: $(tail -3 "$log" | tr '\n' ' ')" 0; rm -rf "$tdir"; return; fi
  ( cd "$ROOT" && timeout 1800 "$tdir/x86_64-unknown-linux-gnu/verif/vcheck" "$PROP" --lane "$name" --seed "$SEED" --scale "$scale" ) >>"$log" 2>&1
  local rc=$?
  if grep -q "ERROR: AddressSanitizer\|WARNING: ThreadSanitizer\|ERROR: ThreadSanitizer" "$log"; then
    emit "$name" "rustc -Zsanitizer ($name)" violation "$(grep -c 'Sanitizer:' "$log")" "$(grep -m1 -A12 'Sanitizer:' "$log" | tr '\n' ' ')" "$(ops_of "$name")"
  elif [ $rc -eq 124 ]; then emit "$name" "rustc -Zsanitizer ($name)" inconclusive 0 "timeout" "$(ops_of "$name")"
  elif [ $rc -eq 1 ] && grep -q "VIOLATION" "$log"; then emit "$name" "rustc -Zsanitizer ($name)" violation 1 "functional oracle fired under $name: $(grep -m1 'violation signature' "$log")" "$(ops_of "$name")"
  elif ! grep -q "verdict=" "$log"; then emit "$name" "rustc -Zsanitizer ($name)" unavailable 0 "$(tail -3 "$log" | tr '\n' ' ')" 0
  else emit "$name" "rustc -Zsanitizer ($name)" ok 0 "$(grep -m1 'verdict=' "$log")" "$(ops_of "$name")"; fi
  rm -rf "$tdir"   # disk
}

lane_live_memcheck() { # the sender PROCESS of the live lane under valgrind (the harness itself runs natively)
  local log="$H/target/lane-live-memcheck-$PROP.log"
  command -v valgrind >/dev/null || { emit live-memcheck valgrind unavailable 0 "valgrind not installed" 0; return; }
  ( cd "$ROOT" && timeout 1800 "$H/target/verif/vcheck" "$PROP" --lane live-memcheck --seed "$SEED" --tier "$TIER" ) >"$log" 2>&1
  local rc=$?
  if [ $rc -eq 1 ] && grep -q "VIOLATION" "$log"; then emit live-memcheck "valgrind memcheck on the live sender process" violation 1 "$(grep -m1 'violation signature' "$log" | cut -c1-1200)" "$(ops_of live-memcheck)"
  elif [ $rc -eq 124 ]; then emit live-memcheck "valgrind memcheck on the live sender process" inconclusive 0 "timeout" "$(ops_of live-memcheck)"
  elif ! grep -q "verdict=" "$log"; then emit live-memcheck "valgrind memcheck on the live sender process" unavailable 0 "$(tail -3 "$log" | tr '\n' ' ')" 0
  else emit live-memcheck "valgrind memcheck on the live sender process" ok 0 "$(grep -m1 'verdict=' "$log")" "$(ops_of live-memcheck)"; fi
}

lane_live_san() { # name(asan|tsan): a sanitizer build of vlive driven by the native harness
  local name="$1" log="$H/target/lane-live-$1-$PROP.log" flags tdir extra
  if [ "$name" = asan ]; then flags="-Zsanitizer=address -Cforce-frame-pointers=yes"; extra=""; export ASAN_OPTIONS="halt_on_error=1:detect_leaks=0"
  else flags="-Zsanitizer=thread"; extra="-Zbuild-std"; export TSAN_OPTIONS="halt_on_error=0:report_signal_unsafe=0:suppressions=$ROOT/tools/tsan-live.supp"; fi
  tdir="$H/target/live-$name"
  ( cd "$H" && RUSTFLAGS="$flags" timeout 1800 cargo +nightly build --offline $extra --target x86_64-unknown-linux-gnu --profile verif --bin vlive --target-dir "$tdir" ) >"$log" 2>&1
  if [ $? -ne 0 ]; then emit "live-$name" "rustc -Zsanitizer ($name) build of the live sender process" unavailable 0 "build failed: $(tail -3 "$log" | tr '\n' ' ')" 0; rm -rf "$tdir"; return; fi
  ( cd "$ROOT" && VERIF_LIVE_BIN="$tdir/x86_64-unknown-linux-gnu/verif/vlive" timeout 1800 "$H/target/verif/vcheck" "$PROP" --lane "live-$name" --seed "$SEED" --tier "$TIER" ) >>"$log" 2>&1
  local rc=$?
  if [ $rc -eq 1 ] && grep -q "VIOLATION" "$log"; then emit "live-$name" "rustc -Zsanitizer ($name) build of the live sender process" violation 1 "$(grep -m1 'violation signature' "$log" | cut -c1-1200)" "$(ops_of "live-$name")"
  elif [ $rc -eq 124 ]; then emit "live-$name" "rustc -Zsanitizer ($name) build of the live sender process" inconclusive 0 "timeout" "$(ops_of "live-$name")"
  elif ! grep -q "verdict=" "$log"; then emit "live-$name" "rustc -Zsanitizer ($name) build of the live sender process" unavailable 0 "$(tail -3 "$log" | tr '\n' ' ')" 0
  else emit "live-$name" "rustc -Zsanitizer ($name) build of the live sender process" ok 0 "$(grep -m1 'verdict=' "$log")" "$(ops_of "live-$name")"; fi
  rm -rf "$tdir"   # disk
}

case "$TIER:$PROP" in
  quick:C15) lane_miri 1/50 ;;
  thorough:C15) lane_miri 1/300 ;;
  thorough:C02) lane_miri 1/100000 ;;
  thorough:C05) lane_miri 1/25000 ;;
  thorough:C20) lane_miri 1/100000; lane_san tsan 1/50 ;;
  thorough:C18) lane_san tsan 1/50 ;;
  quick:C01) lane_memcheck 1/64 ;;
  quick:C09) lane_live_memcheck ;;
  thorough:C01) lane_memcheck 1/500; lane_san asan 1/100; lane_live_memcheck ;;
  thorough:C09) lane_memcheck 1/500; lane_san asan 1/100; lane_live_memcheck; lane_live_san asan ;;
  thorough:C08) lane_live_san tsan ;;
  thorough:C07) lane_live_san tsan ;;
  thorough:C14) lane_memcheck 1/1000 ;;
  thorough:C19) lane_memcheck 1/500; lane_live_san tsan ;;
esac
exit 0
