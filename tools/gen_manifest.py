#!/usr/bin/env python3
"""Generate /verif/MANIFEST.json from the table below (single source of truth)."""
import json, os, subprocess, sys

ROOT = os.path.dirname(os.path.dirname(os.path.abspath(__file__)))

# property id -> (engine, technique, level text, level note, design ref)
P = {
 "C01": ("E1-shell-sim", "runtime monitor: offline log checker (intact / exactly-once / per-link order / bounded hold / permitted loss) over bytes read from receiver-side sockets while the real event-loop arms run under a virtual clock with injected faults; memcheck+ASan lanes",
         "Held on K seeded executions of the real arms (handle_srt_packet, handle_uplink_packet, flush_all_batches, handle_housekeeping) over loopback sockets; every client datagram carries a unique id so each received frame identifies its origin.",
         "Loopback never reorders, drops or short-sends; arm interleavings and faults are sampled, not enumerated; E1 re-states ~40 lines of select! glue.", "DESIGN.md 4/C01"),
 "C02": ("E2-core-history", "runtime monitor: refinement of in_flight_packets/get_score against a per-link set model after every event of seeded histories driven through the production ACK/NAK dispatch",
         "Held on K seeded histories of sends / cumulative ACKs / SRTLA ACKs / NAKs / resets, checked after every step against an independent outstanding-set model.",
         "Sequence numbers in a non-wrapping span; reference model is mine.", "DESIGN.md 4/C02"),
 "C03": ("E2-state-monitor", "runtime monitor: assertion usable(link) => select returns Some, on stratified-random reachable link states with real latch/pull history",
         "Held on K observed selector calls over stratified link states, configurations and real stall-guard histories.",
         "States built by real transitions plus stamping of shell-written fields only; sampled product.", "DESIGN.md 4/C03"),
 "C04": ("E2+E1", "runtime monitor: eligibility assertion on the link every unique datagram is routed to (selector stream + shell simulation with retransmit / critical-window overrides)",
         "Held on K observed routing decisions in the selector stream and the shell simulation.",
         "Eligibility predicate recomputed from accessor-visible state at the instant of the decision.", "DESIGN.md 4/C04"),
 "C05": ("E1+direct", "runtime monitor: per-NAK delta checker against an independent ownership model (slot ring, 5 s age, probes excluded)",
         "Held on K NAKs over seeded routing histories; each NAK's (nak_count, window, in-flight) deltas compared to the model.",
         "Ownership model is mine (slot = seq mod 16384, age <= 5000 ms).", "DESIGN.md 4/C05"),
 "C06": ("E2-core-history", "runtime monitor: range invariant + per-op direction rules on window / fast-recovery flag after every event (overflow checks on, and a wrap-arithmetic profile in thorough)",
         "Held on K timed histories of ACKs, NAKs, recovery ticks and resets in both modes.",
         "in-flight extremes reached by calling the public congestion entry points directly.", "DESIGN.md 4/C06"),
 "C07": ("E2-manager+E1", "runtime monitor: online trace-specification checker R1-R8 over REG1/REG2 emissions and accessor-visible manager state",
         "Held on K seeded handshake histories (bare manager driven like the shell does, and the real shell arms on sockets).",
         "Bounded history depth; probe REG2s excluded by construction.", "DESIGN.md 4/C07"),
 "C08": ("E1-fault-schedules", "runtime monitor: D1-D6 checker (teardown justified, retry spacing, bounded rejoin in virtual time, clean accounting, survivors) over fault schedules",
         "Held on K seeded fault/repair schedules run through the real arms under a virtual clock; liveness restated as bounded progress.",
         "Unbounded 'forever' only decided as bounded progress; faults modelled above the socket.", "DESIGN.md 4/C08"),
 "C09": ("E1-arbitrary-bytes", "runtime monitor: reference classifier + liveness/proof stamp rules on every injected uplink datagram; relayed bytes read from the simulated SRT client socket",
         "Held on K injected datagrams (exhaustive type codes x lengths plus generated) in every link state.",
         "Reference classifier written from the property text.", "DESIGN.md 4/C09"),
 "C10": ("E1-lockstep", "runtime monitor: lock-step comparison of chosen link and window vector against a reference re-implementation of classic srtla_send",
         "Held on K closed-loop classic-mode histories; every decision and every window compared to the integer reference model.",
         "Reference model written from the property's description of the C algorithm.", "DESIGN.md 4/C10"),
 "C11": ("E2-score-oracle", "runtime monitor: independent score oracle (stability, hysteresis, cap, gates, factor ranges) compared with every enhanced selection",
         "Held on K observed enhanced selections with independently recomputed scores.",
         "Oracle tracks the 50 ms quality cache from call history; float comparisons use 1e-9 relative tolerance.", "DESIGN.md 4/C11"),
 "C12": ("E2-relational", "runtime monitor: before/after fingerprint equality of liveness+accounting state around every select, and twin-run decision equality with the guard off",
         "Held on K selects and K twin comparisons.", "Fingerprint covers all accessor-visible liveness/accounting fields.", "DESIGN.md 4/C12"),
 "C13": ("E2-timed-traces", "runtime monitor: temporal monitor T1-T4 over timed traces of selects, proofs and inbound bytes",
         "Held on K timed traces with an independent latch/dwell monitor.", "Monitor uses the weaker of the candidate windows where RTT changes mid-run.", "DESIGN.md 4/C13"),
 "C14": ("E1", "runtime monitor: keepalive cadence + frame decode + RTT sampling rule over frames captured on the uplink sockets",
         "Held on K housekeeping/echo histories through the real arms.", "Reference decoder from C15.", "DESIGN.md 4/C14"),
 "C15": ("E3-codec-differential", "runtime monitor: differential against an independent reference codec; exhaustive for lengths 0..2 and all type codes x boundary lengths; Miri lane",
         "Every decoder compared with the reference on every input; short strata enumerated completely, the rest sampled.",
         "Reference codec written from the property's layout text; NAK cap policy beyond 1000 entries only bounded.", "DESIGN.md 4/C15"),
 "C16": ("E2-snapshot-history", "runtime monitor: snapshot-sequence rules B1-B5 over LinkCongestionState / LinkCcController tick histories",
         "Held on K tick histories with independent bounds on every target move and on the loss latch.", "+-1 tolerance for integer truncation.", "DESIGN.md 4/C16"),
 "C17": ("E2-tick-history", "runtime monitor: tick-by-tick rules W1-W4 over WeakLinkFilter::classify with independently recomputed shares and delay tiers",
         "Held on K tick histories.", "Permille rounding tolerance of +-1; bypass/disconnect ticks cancel a pending probation.", "DESIGN.md 4/C17"),
 "C18": ("E4-control-plane", "runtime monitor: JSON-RPC reference model + configuration model, dispatch vs dispatch_async differential, process-level stdin/socket lane, concurrent register-history checker",
         "Held on K generated lines / sequences in-process and through the real binary's stdin and control socket.", "Top-level JSON arrays (serde positional structs) are treated as unspecified shape.", "DESIGN.md 4/C18"),
 "C19": ("E1-reload", "runtime monitor: parser differential + structural before/after checker around the real apply_connection_changes with live sockets",
         "Held on K reload sequences applied mid-stream.", "Loopback source addresses only.", "DESIGN.md 4/C19"),
 "C20": ("E5-schedule-fuzzer", "runtime monitor: offline log checker N1-N6 over histories produced by a seeded schedule-fuzzing executor polling the real SubscriptionHub futures, plus real-runtime stress lanes",
         "Held on K distinct poll schedules and real-runtime histories.", "Interleavings sampled (uniform + PCT-style), not enumerated.", "DESIGN.md 4/C20"),
}

BUILT = sorted(x.strip() for x in open(os.path.join(ROOT, 'tools', 'built.txt')).read().split() if x.strip())

def hooks_commits():
    try:
        out = subprocess.check_output(['git', '-C', '/repo', 'log', '--format=%H %s'], text=True)
        return [l.split()[0] for l in out.splitlines() if ' verif-hooks:' in ' ' + l]
    except Exception:
        return []

checks, na = [], []
for pid in sorted(P):
    eng, tech, text, note, ref = P[pid]
    if pid in BUILT:
        checks.append({
            "property_id": pid,
            "quick_cmd": f"./check {pid} quick",
            "thorough_cmd": f"./check {pid} thorough",
            "evidence_file": f"/verif/evidence/{pid}.json",
            "replay_cmd_template": f"./check {pid} --replay {{path}}",
            "engine": eng,
            "level_claimed": {"category": ("fault_enumeration" if pid == "C08" else "exploration"), "text": text, "design_ref": ref},
            "level_note": note,
            "technique": tech + (" + E6 live-process lane (external monitor over the production event loop in a real process, DESIGN.md 9.1)" if pid in ("C01", "C07", "C08", "C09", "C14", "C18", "C19", "C20") else ""),
        })
    else:
        na.append({"property_id": pid, "reason": "check not built yet in this revision of /verif (runtime-monitoring design exists in DESIGN.md section 4; no claim is made until the monitor runs)"})

m = {
    "version": 1,
    "setup_cmd": "cd harness && CARGO_NET_OFFLINE=true cargo build --offline --profile verif --bin vcheck --bin vctl --bin vlive",
    "hooks": {
        "guard": "cargo feature verif-hooks (srtla-core/verif-hooks + srtla_send/verif-hooks, implies test-internals); off by default",
        "enable": "harness/Cargo.toml depends on ../../repo and ../../repo/crates/srtla-core by path with features = [\"verif-hooks\"]; every ./check runs cargo build first",
        "baseline_off_cmd": "cd /repo && cargo nextest run --workspace --no-fail-fast --offline --test-threads 8 || cargo test --workspace --no-fail-fast --offline",
        "source_commits": hooks_commits(),
        "add_only": True,
    },
    "engines": [
        {"name": "E1-shell-sim", "path": "harness/src/sim", "serves_properties": ["C01", "C04", "C05", "C07", "C08", "C09", "C10", "C14", "C19"], "kind_free_text": "real event-loop arms on loopback sockets under a thread-local virtual clock, simulated receiver + SRT client, fault plans"},
        {"name": "E2-core", "path": "harness/src/props", "serves_properties": ["C02", "C03", "C04", "C06", "C07", "C11", "C12", "C13", "C16", "C17"], "kind_free_text": "seeded histories / stratified states through srtla-core's public API with independent reference models and trace monitors"},
        {"name": "E3-codec-differential", "path": "harness/src/props/c15.rs", "serves_properties": ["C15"], "kind_free_text": "differential vs independent reference codec"},
        {"name": "E4-control-plane", "path": "harness/src/props/c18.rs", "serves_properties": ["C18"], "kind_free_text": "JSON-RPC model, process lane, concurrent lane"},
        {"name": "E5-schedule-fuzzer", "path": "harness/src/props/c20.rs", "serves_properties": ["C20"], "kind_free_text": "seeded executor polling the real hub futures in hostile orders + real runtime lanes"},
        {"name": "E6-live-process", "path": "harness/src/live", "serves_properties": ["C01", "C07", "C08", "C09", "C14", "C18", "C19", "C20"], "kind_free_text": "the production run_sender_with_config in a real process (harness/src/bin/vlive.rs) on loopback sockets and the real clock; the harness plays SRT client, SRTLA receiver, path faults, receiver restarts, SIGHUP reloads and hostile return traffic and monitors kernel-timestamped datagrams on both sides plus the sender's stats pushes (its logical clock); also run under valgrind and as ASan / TSan builds"},
    ],
    "checks": checks,
    "not_applicable": na,
    "notes": "All checks: ./check <id> <tier>; VERIF_SEED selects the PRNG seed. Exit 0 held / 1 VIOLATION / 2 INCONCLUSIVE. Known findings: /verif/known_findings.json.",
}
json.dump(m, open(os.path.join(ROOT, 'MANIFEST.json'), 'w'), indent=1)
print("MANIFEST.json written: claimed", [c['property_id'] for c in checks])
