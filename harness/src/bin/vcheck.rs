//! vcheck <Cxx> [--tier quick|thorough] [--seed N] [--replay FILE] [--lane NAME]
//!        [--threads N] [--scale MUL/DIV]
use std::time::Instant;

use vharness::props;
use vharness::report::{RunCfg, Tier, conclude};

fn main() {
    let args: Vec<String> = std::env::args().collect();
    if args.len() < 2 {
        eprintln!("usage: vcheck <Cxx> [--tier quick|thorough] [--seed N] [--replay FILE] [--lane NAME] [--threads N]");
        std::process::exit(3);
    }
    let prop = args[1].clone();
    let mut tier = match std::env::var("VERIF_TIER").ok().as_deref() {
        Some("thorough") => Tier::Thorough,
        _ => Tier::Quick,
    };
    let mut seed: u64 = std::env::var("VERIF_SEED").ok().and_then(|s| s.parse().ok()).unwrap_or(1);
    let mut threads = std::thread::available_parallelism().map(|n| n.get()).unwrap_or(4).min(16);
    let mut replay_case = None;
    let mut lane = None;
    let (mut scale_mul, mut scale_div) = (1u64, 1u64);
    let mut i = 2;
    while i < args.len() {
        let a = args[i].as_str();
        let val = args.get(i + 1).cloned();
        match a {
            "--tier" => {
                tier = if val.as_deref() == Some("thorough") { Tier::Thorough } else { Tier::Quick };
                i += 1;
            }
            "--seed" => {
                seed = val.and_then(|s| s.parse().ok()).unwrap_or(seed);
                i += 1;
            }
            "--threads" => {
                threads = val.and_then(|s| s.parse().ok()).unwrap_or(threads);
                i += 1;
            }
            "--lane" => {
                lane = val;
                i += 1;
            }
            "--scale" => {
                if let Some(v) = val {
                    let mut it = v.split('/');
                    scale_mul = it.next().and_then(|s| s.parse().ok()).unwrap_or(1);
                    scale_div = it.next().and_then(|s| s.parse().ok()).unwrap_or(1);
                }
                i += 1;
            }
            "--replay" => {
                let path = val.unwrap_or_default();
                match std::fs::read_to_string(&path).ok().and_then(|t| serde_json::from_str::<serde_json::Value>(&t).ok()) {
                    Some(v) => {
                        seed = v["seed"].as_u64().unwrap_or(seed);
                        replay_case = v["case"].as_u64();
                        tier = if v["tier"].as_str() == Some("thorough") { Tier::Thorough } else { Tier::Quick };
                        lane = v["lane"].as_str().map(|s| s.to_string());
                        scale_mul = v["scale_mul"].as_u64().unwrap_or(1);
                        scale_div = v["scale_div"].as_u64().unwrap_or(1);
                    }
                    None => {
                        eprintln!("cannot read replay file {path}");
                        std::process::exit(3);
                    }
                }
                i += 1;
            }
            _ => {}
        }
        i += 1;
    }
    let Some((spec, run)) = props::lookup(&prop) else {
        eprintln!("unknown property {prop}");
        std::process::exit(3);
    };
    vharness::runner::install_quiet_panic_hook();
    let cfg = RunCfg { prop: prop.clone(), seed, tier, threads, replay_case, lane, scale_mul, scale_div };
    let start = Instant::now();
    let rep = run(&cfg);
    let wall = start.elapsed().as_secs_f64();
    if cfg.replay_case.is_some() {
        // print the trace and the violations of the replayed case
        for v in &rep.violations {
            println!("--- replayed violation signature={} ---\n{}", v.signature, v.detail);
            for l in &v.trace {
                println!("  {l}");
            }
        }
        if rep.violations.is_empty() {
            println!("replay: case did not violate on this tree");
            for l in &rep.trace {
                println!("  {l}");
            }
        }
    }
    // fold in the sanitizer / interpreter lanes that tools/lanes.sh ran for this property (main run only)
    let (mut lanes, mut lane_viol, mut lane_inc) = (Vec::new(), Vec::new(), Vec::new());
    if cfg.lane.is_none() && cfg.replay_case.is_none() {
        let evdir = vharness::report::verif_root().join("evidence");
        if let Ok(rd) = std::fs::read_dir(&evdir) {
            let mut files: Vec<_> = rd.flatten().map(|e| e.path()).filter(|p| p.file_name().and_then(|n| n.to_str()).is_some_and(|n| n.starts_with(&format!(".lane-{prop}-")) && n.ends_with(".result"))).collect();
            files.sort();
            for f in files {
                let Some(v) = std::fs::read_to_string(&f).ok().and_then(|t| serde_json::from_str::<serde_json::Value>(&t).ok()) else { continue };
                match v["status"].as_str() {
                    Some("violation") => lane_viol.push(vharness::report::Violation {
                        signature: format!("{prop}.sanitizer.{}", v["lane"].as_str().unwrap_or("lane")),
                        detail: format!("{} reported {} problem(s) while running this property's workload: {}", v["tool"].as_str().unwrap_or("tool"), v["reports"], v["detail"].as_str().unwrap_or("")),
                        case: 0,
                        trace: Vec::new(),
                    }),
                    Some("inconclusive") => lane_inc.push(format!("lane {} ({}): {}", v["lane"].as_str().unwrap_or("?"), v["tool"].as_str().unwrap_or("?"), v["detail"].as_str().unwrap_or(""))),
                    _ => {}
                }
                lanes.push(v);
            }
        }
    }
    let out = conclude(spec, &cfg, rep, wall, lanes, lane_viol, lane_inc);
    std::process::exit(out.exit_code);
}
