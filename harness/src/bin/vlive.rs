//! vlive <srt_port> <receiver_host> <receiver_port> <ips_file> <control_socket> <mode> <conn_timeout_ms>
//!       [no-quality] [no-stall]
//!
//! Hosts the PRODUCTION sender entry point `srtla_send::sender::run_sender_with_config`
//! (the real `tokio::select!` event loop, reader tasks with recvmmsg, instant-ACK
//! forwarder, SIGHUP stream, housekeeping / flush timers) in a real process on the
//! multi-thread runtime, wired exactly as `main()` wires it: production
//! `SourceIpBinder`, production stdin listener and control socket, real clock. Only
//! clap parsing and tracing initialisation of `main()` are left out. The live lane
//! (`vharness::live`) talks to this process over real loopback sockets.
use std::sync::Arc;

use srtla_core::mode::SchedulingMode;
use srtla_core::priority::CriticalWindow;
use srtla_send::config::DynamicConfig;
use srtla_send::net::{SourceIpBinder, UplinkBinder};
use srtla_send::stats::SharedStats;
use srtla_send::subscriptions::SubscriptionHub;

fn main() {
    let a: Vec<String> = std::env::args().collect();
    if a.len() < 8 {
        eprintln!("usage: vlive <srt_port> <receiver_host> <receiver_port> <ips_file> <control_socket> <classic|enhanced> <conn_timeout_ms> [no-quality] [no-stall]");
        std::process::exit(2);
    }
    let srt_port: u16 = a[1].parse().expect("srt port");
    let host = a[2].clone();
    let rport: u16 = a[3].parse().expect("receiver port");
    let ips = a[4].clone();
    let sock = a[5].clone();
    let mode: SchedulingMode = a[6].parse().expect("mode");
    let timeout: u64 = a[7].parse().expect("timeout");
    let no_quality = a.iter().skip(8).any(|s| s == "no-quality");
    let no_stall = a.iter().skip(8).any(|s| s == "no-stall");
    let config = DynamicConfig::from_cli(
        mode,
        no_quality,
        no_stall,
        srtla_send::config::STALL_MIN_IN_FLIGHT_PACKETS,
        srtla_send::config::STALL_ACK_STALE_MS,
        timeout,
    );
    let stats = SharedStats::new();
    let hub = SubscriptionHub::new();
    let cw = CriticalWindow::new();
    let rt = tokio::runtime::Builder::new_multi_thread().worker_threads(3).enable_all().build().expect("runtime");
    let rc = rt.block_on(async move {
        srtla_send::config::spawn_stdin_listener(config.clone(), stats.clone(), cw.clone());
        srtla_send::control_socket::spawn(sock, config.clone(), stats.clone(), cw.clone(), hub.clone());
        let binder: Arc<dyn UplinkBinder> = Arc::new(SourceIpBinder);
        srtla_send::sender::run_sender_with_config(srt_port, &host, rport, &ips, config, stats, cw, hub, binder).await
    });
    if let Err(e) = rc {
        eprintln!("vlive: sender returned error: {e:#}");
        std::process::exit(3);
    }
}
