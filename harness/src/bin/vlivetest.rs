//! vlivetest <scenario> [sessions] [parallel] [seed] — development driver for the live lane: runs sessions
//! of one scenario (or "all") and prints every oracle's findings, whichever property they belong to.
use vharness::live::{self, ReloadKind, Scenario};
use vharness::prng::Rng;

fn main() {
    let a: Vec<String> = std::env::args().collect();
    let which = a.get(1).cloned().unwrap_or_else(|| "steady".into());
    let n: u64 = a.get(2).and_then(|s| s.parse().ok()).unwrap_or(1);
    let par: usize = a.get(3).and_then(|s| s.parse().ok()).unwrap_or(4);
    let seed: u64 = a.get(4).and_then(|s| s.parse().ok()).unwrap_or(1);
    let all = [
        Scenario::Steady,
        Scenario::BlackHole,
        Scenario::NoReturn,
        Scenario::Forget { err: false },
        Scenario::Forget { err: true },
        Scenario::Restart,
        Scenario::Reload(ReloadKind::Remove),
        Scenario::Reload(ReloadKind::Add),
        Scenario::Reload(ReloadKind::Replace),
        Scenario::Reload(ReloadKind::Messy),
        Scenario::Reload(ReloadKind::RefusedEmpty),
        Scenario::Reload(ReloadKind::RefusedGarbage),
        Scenario::Reload(ReloadKind::RefusedMissing),
        Scenario::HostileReturn,
        Scenario::Control,
        Scenario::StalledSubscriber,
    ];
    let pick: Vec<Scenario> = all.iter().copied().filter(|s| which == "all" || format!("{s:?}").to_lowercase().contains(&which.to_lowercase())).collect();
    let bin = live::vlive_path();
    let verbose = std::env::var("VERBOSE").is_ok();
    let next = std::sync::atomic::AtomicU64::new(0);
    std::thread::scope(|sc| {
        for _ in 0..par {
            sc.spawn(|| loop {
                let i = next.fetch_add(1, std::sync::atomic::Ordering::Relaxed);
                if i >= n * pick.len() as u64 {
                    break;
                }
                let scn = pick[(i % pick.len() as u64) as usize];
                let mut rng = Rng::derive(seed, &[i]);
                let o = live::gen_opts(&mut rng, scn, &bin);
                let t0 = std::time::Instant::now();
                match live::Session::start(o, &mut rng) {
                    Ok(s) => {
                        let r = s.run();
                        let mut out = format!("#{i} {:?} wall={:.1}s inconclusive={:?} violations={}\n  summary {}\n", scn, t0.elapsed().as_secs_f64(), r.inconclusive, r.violations.len(), r.summary);
                        for v in &r.violations {
                            out.push_str(&format!("  VIOL [{}] {}: {}\n", v.0, v.1, v.2));
                        }
                        if verbose || !r.violations.is_empty() || r.inconclusive.is_some() {
                            for l in r.log.iter().rev().take(if verbose { 600 } else { 60 }).rev() {
                                out.push_str(&format!("    {l}\n"));
                            }
                        }
                        if verbose {
                            out.push_str(&format!("  counters {:?}\n", r.counters));
                        }
                        print!("{out}");
                    }
                    Err(e) => println!("#{i} {scn:?} could not start: {e}"),
                }
            });
        }
    });
}
