//! vctl <socket-path> — hosts the PRODUCTION control-plane entry points in a real
//! process for the C18 / C20 process lanes: `config::spawn_stdin_listener` (blocking
//! stdin thread printing responses to stdout) and `control_socket::spawn` (async Unix
//! socket listener with subscription support). A housekeeping-equivalent task publishes
//! a "stats" event periodically, as the sender's event loop does.
use std::time::Duration;

use srtla_core::priority::CriticalWindow;
use srtla_send::config::DynamicConfig;
use srtla_send::stats::SharedStats;
use srtla_send::subscriptions::SubscriptionHub;

fn main() {
    let sock = std::env::args().nth(1).expect("usage: vctl <socket-path> [publish-interval-ms]");
    let every: u64 = std::env::args().nth(2).and_then(|s| s.parse().ok()).unwrap_or(0);
    let config = DynamicConfig::new();
    let stats = SharedStats::new();
    let cw = CriticalWindow::new();
    let hub = SubscriptionHub::new();
    srtla_send::config::spawn_stdin_listener(config.clone(), stats.clone(), cw.clone());
    let rt = tokio::runtime::Builder::new_multi_thread().worker_threads(2).enable_all().build().expect("runtime");
    rt.block_on(async move {
        let _h = srtla_send::control_socket::spawn(sock, config.clone(), stats.clone(), cw.clone(), hub.clone());
        let mut n: u64 = 0;
        loop {
            if every == 0 {
                tokio::time::sleep(Duration::from_secs(3600)).await;
            } else {
                tokio::time::sleep(Duration::from_millis(every)).await;
                n += 1;
                hub.publish("stats", serde_json::json!({"seq": n})).await;
            }
        }
    });
}
