//! Reports, verdicts, evidence files, known findings.

use std::collections::{BTreeMap, HashSet};
use std::path::{Path, PathBuf};

use serde_json::{Value, json};

#[derive(Clone, Copy, Debug, PartialEq, Eq)]
pub enum Tier {
    Quick,
    Thorough,
}

impl Tier {
    pub fn as_str(self) -> &'static str {
        match self {
            Tier::Quick => "quick",
            Tier::Thorough => "thorough",
        }
    }
}

#[derive(Clone, Debug)]
pub struct RunCfg {
    pub prop: String,
    pub seed: u64,
    pub tier: Tier,
    pub threads: usize,
    /// Replay exactly one case (global case index) with tracing on.
    pub replay_case: Option<u64>,
    /// Optional lane name (e.g. "miri", "memcheck", "live") selecting a reduced /
    /// alternative workload.
    pub lane: Option<String>,
    /// Multiplier applied to every case count (lanes use < 1 via `scale_div`).
    pub scale_mul: u64,
    pub scale_div: u64,
}

impl RunCfg {
    /// Scale a quick-tier case count to the configured tier / lane.
    pub fn cases(&self, quick: u64, thorough: u64) -> u64 {
        let base = match self.tier {
            Tier::Quick => quick,
            Tier::Thorough => thorough,
        };
        (base.saturating_mul(self.scale_mul) / self.scale_div.max(1)).max(1)
    }
}

#[derive(Clone, Debug)]
pub struct Violation {
    pub signature: String,
    pub detail: String,
    pub case: u64,
    pub trace: Vec<String>,
}

/// Per-shard (and merged) result of a run.
#[derive(Default)]
pub struct Report {
    pub evaluations: u64,
    pub distinct: HashSet<u64>,
    pub counters: BTreeMap<String, u64>,
    pub samples: Vec<Value>,
    pub violations: Vec<Violation>,
    pub violation_count: u64,
    pub inconclusive: Vec<String>,
    /// extra free-form facts for the evidence file
    pub notes: BTreeMap<String, Value>,
    // ---- per-case scratch -------------------------------------------------
    pub tracing: bool,
    pub trace: Vec<String>,
    pub cur_case: u64,
}

pub const MAX_STORED_VIOLATIONS: usize = 32;
pub const MAX_SAMPLES: usize = 4;
const MAX_TRACE: usize = 4000;

impl Report {
    pub fn new() -> Self {
        Self::default()
    }

    #[inline]
    pub fn count(&mut self, name: &str) {
        self.add(name, 1);
    }

    #[inline]
    pub fn add(&mut self, name: &str, n: u64) {
        if let Some(v) = self.counters.get_mut(name) {
            *v += n;
        } else {
            self.counters.insert(name.to_string(), n);
        }
    }

    pub fn max(&mut self, name: &str, v: u64) {
        let e = self.counters.entry(name.to_string()).or_insert(0);
        if v > *e {
            *e = v;
        }
    }

    #[inline]
    pub fn get(&self, name: &str) -> u64 {
        self.counters.get(name).copied().unwrap_or(0)
    }

    #[inline]
    pub fn eval(&mut self) {
        self.evaluations += 1;
    }

    #[inline]
    pub fn distinct(&mut self, h: u64) {
        self.distinct.insert(h);
    }

    /// Record a trace line (only materialised while replaying / re-running a
    /// violating case).
    #[inline]
    pub fn t<F: FnOnce() -> String>(&mut self, f: F) {
        if self.tracing {
            if self.trace.len() >= MAX_TRACE {
                self.trace.drain(0..MAX_TRACE / 2);
                self.trace.insert(0, "... (trace truncated) ...".into());
            }
            self.trace.push(f());
        }
    }

    pub fn sample(&mut self, v: Value) {
        if self.samples.len() < MAX_SAMPLES {
            self.samples.push(v);
        }
    }

    pub fn wants_sample(&self) -> bool {
        self.samples.len() < MAX_SAMPLES
    }

    pub fn violation(&mut self, signature: &str, detail: String) {
        self.violation_count += 1;
        if self.violations.len() < MAX_STORED_VIOLATIONS
            || !self.violations.iter().any(|v| v.signature == signature)
        {
            self.violations.push(Violation {
                signature: signature.to_string(),
                detail,
                case: self.cur_case,
                trace: if self.tracing { self.trace.clone() } else { Vec::new() },
            });
        }
    }

    pub fn inconclusive(&mut self, why: String) {
        if self.inconclusive.len() < 16 {
            self.inconclusive.push(why);
        }
    }

    pub fn merge(&mut self, other: Report) {
        self.evaluations += other.evaluations;
        self.distinct.extend(other.distinct);
        for (k, v) in other.counters {
            if k.starts_with("max.") {
                let e = self.counters.entry(k).or_insert(0);
                if v > *e {
                    *e = v;
                }
            } else {
                *self.counters.entry(k).or_insert(0) += v;
            }
        }
        for s in other.samples {
            if self.samples.len() < MAX_SAMPLES {
                self.samples.push(s);
            }
        }
        self.violation_count += other.violation_count;
        for v in other.violations {
            if self.violations.len() < MAX_STORED_VIOLATIONS
                || !self.violations.iter().any(|x| x.signature == v.signature)
            {
                self.violations.push(v);
            }
        }
        self.inconclusive.extend(other.inconclusive);
        for (k, v) in other.notes {
            self.notes.entry(k).or_insert(v);
        }
    }
}

/// Static description of a property check.
pub struct PropSpec {
    pub id: &'static str,
    pub level: &'static str,
    pub rule: &'static str,
    pub assumptions: &'static [&'static str],
    /// (counter name, minimum for quick, minimum for thorough)
    pub floors: &'static [(&'static str, u64, u64)],
}

#[derive(Clone, Debug)]
pub struct KnownFinding {
    pub property: String,
    pub signature: String,
    pub status: String,
    pub what: String,
    pub commit: Option<String>,
}

pub fn verif_root() -> PathBuf {
    if let Ok(p) = std::env::var("VERIF_ROOT") {
        return PathBuf::from(p);
    }
    // harness/target/<profile>/vcheck -> /verif
    let exe = std::env::current_exe().unwrap_or_else(|_| PathBuf::from("."));
    let mut p: &Path = exe.as_path();
    for _ in 0..4 {
        if let Some(par) = p.parent() {
            p = par;
        }
    }
    if p.join("properties.jsonl").exists() {
        return p.to_path_buf();
    }
    PathBuf::from("/verif")
}

pub fn load_known_findings(root: &Path) -> Vec<KnownFinding> {
    let p = root.join("known_findings.json");
    let Ok(text) = std::fs::read_to_string(&p) else {
        return Vec::new();
    };
    let Ok(v) = serde_json::from_str::<Value>(&text) else {
        return Vec::new();
    };
    let mut out = Vec::new();
    if let Some(arr) = v.get("findings").and_then(Value::as_array) {
        for e in arr {
            out.push(KnownFinding {
                property: e["property"].as_str().unwrap_or("").to_string(),
                signature: e["signature"].as_str().unwrap_or("").to_string(),
                status: e["status"].as_str().unwrap_or("").to_string(),
                what: e["what"].as_str().unwrap_or("").to_string(),
                commit: e.get("commit").and_then(Value::as_str).map(|s| s.to_string()),
            });
        }
    }
    out
}

pub struct Outcome {
    pub exit_code: i32,
}

/// Decide the verdict, write evidence and replay files, print the protocol lines.
#[allow(clippy::too_many_arguments)]
pub fn conclude(
    spec: &PropSpec,
    cfg: &RunCfg,
    mut rep: Report,
    wall_s: f64,
    lanes: Vec<Value>,
    lane_violations: Vec<Violation>,
    lane_inconclusive: Vec<String>,
) -> Outcome {
    let root = verif_root();
    let known = load_known_findings(&root);
    for v in lane_violations {
        rep.violation_count += 1;
        rep.violations.push(v);
    }
    rep.inconclusive.extend(lane_inconclusive);

    // floors (only for the main workload, not for lanes / replays)
    let mut floor_rows = Vec::new();
    if cfg.replay_case.is_none() && cfg.lane.is_none() {
        for (name, q, t) in spec.floors {
            let need = match cfg.tier {
                Tier::Quick => *q,
                Tier::Thorough => *t,
            };
            let got = rep.get(name);
            floor_rows.push(json!({"counter": name, "need": need, "got": got}));
            if got < need {
                rep.inconclusive
                    .push(format!("coverage floor unmet: {name} got {got} need {need}"));
            }
        }
    }

    // split violations into known / unknown
    let mut known_hit: BTreeMap<String, (String, u64)> = BTreeMap::new();
    let mut unknown: Vec<&Violation> = Vec::new();
    for v in &rep.violations {
        if let Some(k) = known
            .iter()
            .find(|k| k.property == spec.id && k.status == "known" && k.signature == v.signature)
        {
            known_hit
                .entry(k.signature.clone())
                .or_insert((k.what.clone(), 0))
                .1 += 1;
        } else {
            unknown.push(v);
        }
    }

    // replay files for unknown violations (one per signature)
    let replay_dir = root.join("replays");
    let _ = std::fs::create_dir_all(&replay_dir);
    let mut lines = Vec::new();
    let mut seen_sig = HashSet::new();
    for v in &unknown {
        if !seen_sig.insert(v.signature.clone()) {
            continue;
        }
        let mut h = crate::prng::Fnv::new();
        h.str(&v.signature);
        let fname = format!(
            "{}-{:08x}-seed{}-case{}.json",
            spec.id,
            h.finish() as u32,
            cfg.seed,
            v.case
        );
        let path = replay_dir.join(fname);
        let body = json!({
            "property": spec.id,
            "signature": v.signature,
            "detail": v.detail,
            "seed": cfg.seed,
            "tier": cfg.tier.as_str(),
            "lane": cfg.lane,
            "case": v.case,
            "scale_mul": cfg.scale_mul,
            "scale_div": cfg.scale_div,
            "trace": v.trace,
            "how_to_replay": format!("./check {} --replay {}", spec.id, path.display()),
        });
        let _ = std::fs::write(&path, serde_json::to_string_pretty(&body).unwrap_or_default());
        lines.push(format!(
            "VIOLATION property={} replay={}",
            spec.id,
            path.display()
        ));
        eprintln!(
            "  violation signature={} case={} :: {}",
            v.signature, v.case, v.detail
        );
    }

    let unknown_count = unknown.len() as u64;
    let distinct_n = rep.distinct.len() as u64;
    let verdict = if unknown_count > 0 {
        "violated"
    } else if !rep.inconclusive.is_empty() {
        "inconclusive"
    } else {
        "held-on-observed"
    };

    // evidence
    if cfg.replay_case.is_none() {
        let mut coverage = json!({
            "evaluations": rep.evaluations,
            "distinct_nontrivial": distinct_n,
            "rule": spec.rule,
            "samples": rep.samples,
            "observed": rep.counters,
            "floors": floor_rows,
            "verdict": verdict,
            "inconclusive_reasons": rep.inconclusive,
            "known_findings_hit": known_hit.iter().map(|(s,(w,n))| json!({"signature": s, "what": w, "hits": n})).collect::<Vec<_>>(),
            "violation_signatures": unknown.iter().map(|v| v.signature.clone()).collect::<HashSet<_>>().into_iter().collect::<Vec<_>>(),
            "lanes": lanes,
            "exhaustive": false,
        });
        if let Some(obj) = coverage.as_object_mut() {
            for (k, v) in rep.notes.iter() {
                obj.insert(k.clone(), v.clone());
            }
        }
        let ev = json!({
            "property_id": spec.id,
            "tier": cfg.tier.as_str(),
            "seed": cfg.seed as i64,
            "level": spec.level,
            "coverage": coverage,
            "assumptions": spec.assumptions,
            "wall_s": wall_s,
            "violations": unknown_count as i64,
        });
        let evdir = root.join("evidence");
        let _ = std::fs::create_dir_all(&evdir);
        let name = match &cfg.lane {
            None => format!("{}.json", spec.id),
            Some(l) => format!(".lane-{}-{}.json", spec.id, l),
        };
        let tmp = evdir.join(format!("{name}.tmp"));
        let fin = evdir.join(&name);
        if std::fs::write(&tmp, serde_json::to_string_pretty(&ev).unwrap_or_default()).is_ok() {
            let _ = std::fs::rename(&tmp, &fin);
        }
    }

    for (sig, (what, n)) in &known_hit {
        println!(
            "KNOWN-FINDING: property={} {} [signature={} hits={}]",
            spec.id, what, sig, n
        );
    }
    for l in &lines {
        println!("{l}");
    }
    let summary = format!(
        "{} {} seed={} verdict={} evaluations={} distinct={} violations={} known_hits={} wall={:.1}s",
        spec.id,
        cfg.tier.as_str(),
        cfg.seed,
        verdict,
        rep.evaluations,
        distinct_n,
        unknown_count,
        known_hit.len(),
        wall_s
    );
    println!("{summary}");
    if unknown_count > 0 {
        return Outcome { exit_code: 1 };
    }
    if !rep.inconclusive.is_empty() {
        for r in &rep.inconclusive {
            println!("INCONCLUSIVE property={} reason={}", spec.id, r);
        }
        return Outcome { exit_code: 2 };
    }
    Outcome { exit_code: 0 }
}
