//! C07 — registration handshake follows the two-phase SRTLA protocol.
//! E1 with an adversarial receiver: arbitrary handshake packets on 2-3 uplinks,
//! housekeeping arms and clock steps across the 1 s / 4 s deadlines, checked online
//! against the trace specification R1..R8 (sim/regmon.rs).

use std::time::Duration;

use srtla_core::config_snapshot::ConfigSnapshot;

use crate::prng::Rng;
use crate::refcodec as rc;
use crate::report::{PropSpec, Report, RunCfg};
use crate::runner::run_cases;
use crate::sim::regmon::RegMon;
use crate::sim::stream::{ArmKind, Driver, Faults, Monitor, StreamOpts, snapshot};

pub const SPEC: PropSpec = PropSpec {
    id: "C07",
    level: "exploration",
    rule: "E1 histories of 10-60 events on 2-3 uplinks driven through the REAL handle_uplink_packet and handle_housekeeping arms (with or without the initial probing phase): event alphabet {REG_NGP, REG2 full-length with a fresh / the current / a foreign id, REG2 short (2..257 bytes), REG2 on the wrong link, REG3, REG_ERR, unrelated datagram} x link, housekeeping arm (>= 1 s after the previous one), clock advance from {0,1,500,999,1000,1001,2000,3999,4000,4001,5000,5001}; biased sub-scripts produce full cooperative handshakes, late REG2 after the time-out, duplicated replies, REG3 before REG2. REG1 / REG2 frames are read from the receiver-side socket; the manager state through its accessors. Trace specification checked online: R1 one outstanding REG1 (attempt opened by a REG1 on link A closes on a full REG2 on A, any REG_ERR, or the first housekeeping arm >= 4 s later); R2 driver REG1 only while no link is connected; R3 the adopted id changes only in a full-length REG2 arm on the attempt's link and equals bytes 2..258; R4 exactly one broadcast round (one REG2 per link) per adoption, other REG2s only in a link's reconnect step; R5 every REG1 / registration REG2 carries the current id; R6 connected only by REG3 on that link; R7 REG_ERR leaves no pending attempt; R8 time-out closes the attempt at the next housekeeping arm and an idle REG_NGP yields an immediate REG1. Non-trivial = every arm; distinct = abstract manager states (pending?, target?, broadcast?, active==0?, probing?, deadline passed?, #connected) x last event kind. E6 live lane (12 sessions quick / 96 thorough): the PRODUCTION run_sender_with_config (real tokio::select! loop, reader tasks with recvmmsg, instant-ACK forwarder, timers, SIGHUP stream, control socket) runs in a real process (vlive) on loopback sockets and the real clock; the harness plays the SRT client, the SRTLA receiver model, path faults, receiver restarts, SIGHUP reloads and hostile return traffic, observes every datagram on both sides with kernel receive timestamps and uses the sender's own stats pushes (one per housekeeping tick) as its logical clock. Live oracles for this property (wire level): REG1 / REG2 are full-length; no REG1 on a second uplink within 4 s (kernel timestamps) of an unanswered REG1; every REG2 carries the sender's initial id or an id the receiver issued, and the id never goes back (no REG2 with an older id more than 100 ms after a REG2 with a newer one); client traffic never arrives from a socket the receiver has not sent a REG3 to; with a cooperative receiver all uplinks register within 12 sender ticks.",
    assumptions: &[
        "bounded depth: histories of at most 60 events",
        "probe REG2s (startup) carry the probe id and are outside R5 by construction",
        "a REG1 re-sent on the attempt's own link by that link's reconnect step is a re-send (allowed), not a driver emission",
    ],
    floors: &[
        ("wire.reg1", 10_000, 300_000),
        ("wire.reg2", 10_000, 300_000),
        ("R1.attempt_opened", 5_000, 150_000),
        ("R1.resend_on_same_link", 500, 15_000),
        ("R1.attempt_closed_by_reg2", 2_000, 60_000),
        ("R1.attempt_closed_by_reg_err", 500, 15_000),
        ("R2.driver_reg1", 2_000, 60_000),
        ("R3.adoptions", 2_000, 60_000),
        ("R3.reg2_ignored.short", 500, 15_000),
        ("R3.reg2_ignored.wrong_link", 500, 15_000),
        ("R3.reg2_ignored.no_attempt", 500, 15_000),
        ("R4.broadcast_rounds", 2_000, 60_000),
        ("R4.single_link_reconnect_reg2", 500, 15_000),
        ("R6.became_connected", 2_000, 60_000),
        ("R7.reg_err_while_pending", 500, 15_000),
        ("R8.timeout_closed_by_housekeeping", 500, 15_000),
        ("R8.reg_ngp_while_idle", 1_000, 30_000),
        ("R8.reg_ngp_while_pending", 200, 6_000),
        ("late_or_unsolicited_full_reg2", 200, 6_000),
        ("reg3_before_reg2", 200, 6_000),
        ("live.sessions.timing_reliable", 6, 48),
        ("live.C07.reg2_id_checked", 40, 320),
        ("live.rx.groups_created", 12, 96),
        ("live.C08.group_recoveries_observed", 3, 24),
    ],
};

pub fn run_history(rng: &mut Rng, rep: &mut Report) {
    let n = 2 + rng.usize_below(2);
    let sc = ConfigSnapshot::default();
    let probing = rng.chance(1, 2);
    let opts = StreamOpts { n_links: n, cfg: sc, ticks: 0, probing, faults: Faults::None, retransmit_pct: 0, control_pct: 0, critical_windows: false, big_jumps: false, initial_windows: None, loss_permille: 0, stall_min_in_flight_small: false, echo_fuzz: false, rate_pct: 100, short_sends: false };
    let mut d = Driver::new(opts, rng);
    d.capture_reg = true;
    let mut m = RegMon::new();
    let mut mons: [&mut dyn Monitor; 1] = [&mut m];
    if d.sim.conns.len() != n {
        rep.inconclusive("harness I/O: uplinks could not be created".into());
        return;
    }
    // startup as run_sender_with_config does it (probes + first housekeeping), recorded but outside the spec
    d.sim.startup(probing);
    d.last_hk = d.sim.now;
    let _ = d.sim.drain_rx();
    let _ = snapshot(&d.sim);
    let mut trace: Vec<String> = Vec::new();
    let events = 10 + rng.usize_below(51);
    let mut fresh_id = [0u8; 256];
    // scripted bias: 0 = free-form, 1 = cooperative peer (answers what it sees), 2 = slow peer (answers late)
    let script = rng.below(3);
    let mut coop_queue: Vec<(u64, u64, Vec<u8>)> = Vec::new(); // (due, conn_id, bytes)
    for _ in 0..events {
        let dt = *rng.pick(&[0u64, 0, 1, 1, 500, 999, 1000, 1001, 2000, 3999, 4000, 4001, 5000, 5001]);
        d.sim.advance(dt);
        // cooperative / slow peer answers
        if script > 0 {
            let now = d.sim.now;
            let due: Vec<(u64, u64, Vec<u8>)> = coop_queue.iter().filter(|x| x.0 <= now).cloned().collect();
            coop_queue.retain(|x| x.0 > now);
            for (_, id, bytes) in due {
                if d.sim.conns.iter().any(|c| c.conn_id == id) {
                    d.arm_uplink(id, bytes, "peer", rng, &mut mons, rep);
                    observe(&mut d, rng, script, &mut coop_queue, &mut fresh_id);
                }
            }
        }
        let hk_due = d.sim.now.saturating_sub(d.last_hk) >= 1000;
        let choice = rng.below(12);
        if hk_due && choice < 5 {
            d.arm_housekeeping(rng, &mut mons, rep);
            if trace.len() < 60 {
                trace.push(format!("+{dt} HK"));
            }
            observe(&mut d, rng, script, &mut coop_queue, &mut fresh_id);
            continue;
        }
        let li = rng.usize_below(n);
        let id = d.sim.conn_id(li);
        let pending = d.sim.reg.pending_reg2_idx();
        let (bytes, what): (Vec<u8>, &'static str) = match rng.below(14) {
            0..=2 => (vec![0x92, 0x11], "REG_NGP"),
            3..=4 => {
                rng.fill(&mut fresh_id);
                (rc::build_reg(0x9201, &fresh_id), "REG2(fresh id)")
            }
            5 => {
                let cur = *d.sim.reg.srtla_id();
                (rc::build_reg(0x9201, &cur), "REG2(current id)")
            }
            6 => {
                rng.fill(&mut fresh_id);
                let full = rc::build_reg(0x9201, &fresh_id);
                (full[..2 + rng.usize_below(256)].to_vec(), "REG2(short)")
            }
            7..=8 => (vec![0x92, 0x02], "REG3"),
            9 => (vec![0x92, 0x10], "REG_ERR"),
            10 => (rc::build_keepalive10(d.sim.now.saturating_sub(5)), "KEEPALIVE"),
            11 => (rc::build_srtla_ack(&[1, 2, 3]), "SRTLA_ACK"),
            _ => (vec![0x92, 0x11], "REG_NGP"),
        };
        // aim: REG2 at the pending link half of the time, at another link otherwise
        let (id, li) = if what.starts_with("REG2") && rng.chance(1, 2) {
            match pending {
                Some(p) if p < n => (d.sim.conn_id(p), p),
                _ => (id, li),
            }
        } else {
            (id, li)
        };
        if trace.len() < 60 {
            trace.push(format!("+{dt} {what}@{li}"));
        }
        d.arm_uplink(id, bytes, what, rng, &mut mons, rep);
        observe(&mut d, rng, script, &mut coop_queue, &mut fresh_id);
    }
    rep.count("histories");
    if rep.wants_sample() {
        rep.sample(serde_json::json!({"links": n, "probing": probing, "peer_script": script, "events": trace}));
    }
    let _ = ArmKind::Flush;
}

/// The scripted peer looks at what the sender last put on the wire (already consumed by
/// the monitors) — here we peek at the manager instead: it answers REG1 with REG2 and a
/// broadcast REG2 with REG3, immediately (script 1) or late (script 2).
fn observe(d: &mut Driver, rng: &mut Rng, script: u64, q: &mut Vec<(u64, u64, Vec<u8>)>, fresh: &mut [u8; 256]) {
    if script == 0 {
        return;
    }
    let now = d.sim.now;
    let delay = if script == 1 { rng.below(50) } else { *rng.pick(&[100u64, 1500, 3900, 4100, 6000]) };
    // answer a pending REG1 once
    if let Some(p) = d.sim.reg.pending_reg2_idx()
        && p < d.sim.conns.len()
        && !q.iter().any(|x| x.2.len() == 258)
        && rng.chance(1, 2)
    {
        let mut id = *d.sim.reg.srtla_id();
        rng.fill(&mut fresh[..]);
        id[128..].copy_from_slice(&fresh[128..]);
        q.push((now + delay, d.sim.conn_id(p), rc::build_reg(0x9201, &id)));
        if rng.chance(1, 6) {
            q.push((now + delay + 1, d.sim.conn_id(p), rc::build_reg(0x9201, &id)));
        }
    }
    // after a broadcast (flag just cleared, id adopted): REG3 on every link
    if !d.sim.reg.broadcast_reg2_pending() && d.sim.reg.pending_reg2_idx().is_none() && d.sim.conns.iter().any(|c| !c.connected) && rng.chance(1, 4) {
        for c in d.sim.conns.iter() {
            if !c.connected && !q.iter().any(|x| x.1 == c.conn_id && x.2.len() == 2) {
                q.push((now + delay, c.conn_id, vec![0x92, 0x02]));
            }
        }
    }
}


use crate::live::Scenario as S;
/// scenario mix of this property's live lane (E6)
#[allow(unused_imports)]
const LIVE_SCENARIOS: &[(S, u32)] = &[(S::Forget { err: false }, 3), (S::Forget { err: true }, 2), (S::Restart, 2), (S::Steady, 1), (S::BlackHole, 1)];

pub fn run(cfg: &RunCfg) -> Report {
    if crate::live::is_live_lane(cfg) {
        let mut rep = Report::new();
        crate::live::prop_lane(cfg, &mut rep, "C07", LIVE_SCENARIOS);
        return rep;
    }
    let cases = cfg.cases(80_000, 2_000_000);
    let mut rep = run_cases(cfg, 0, cases, Duration::from_secs(3600), |_c, rng, rep| run_history(rng, rep));
    // E6: the production event loop in a real process (wire-level registration oracles)
    crate::live::prop_lane(cfg, &mut rep, "C07", LIVE_SCENARIOS);
    rep
}
