//! C08 — failed uplinks are detected, retried forever, and rejoin cleanly.
//! E1 fault-schedule runs (sim/recovery.rs) with the D1..D6 monitor and the C01
//! delivery monitor for the surviving uplinks.

use std::time::Duration;

use srtla_core::config_snapshot::ConfigSnapshot;
use srtla_core::mode::SchedulingMode;

use crate::report::{PropSpec, Report, RunCfg};
use crate::runner::run_cases;
use crate::sim::recovery::run_schedule;
use crate::sim::stream::{Faults, StreamOpts};

pub const SPEC: PropSpec = PropSpec {
    id: "C08",
    level: "fault_enumeration",
    rule: "seeded fault schedules over 2-15 virtual minutes on 2-4 uplinks (real handshake, real arms, virtual clock, light data traffic, housekeeping every 1000-1100 ms, flush every 15 ms), connection timeout in {1000,1001,2500,5000,15000,60000}, both modes: per link 2-8 phases drawn from all fault kinds {silent black-hole, no return path, lost handshake replies only, socket send error (EPIPE), binder failing (incl. a 500 s failure that drives the back-off to its 120 s plateau)} each followed by a repair, plus group-wide events {receiver restart answering REG_NGP or transient REG_ERR, all links down and back}. Monitor: D1/D2 a connected link is torn down only if the monitor's own log shows no datagram delivered to it for the timeout, or a send error was armed, or REG_ERR arrived - never while only gated / latched; D3 a silent link is torn down by the first housekeeping arm at which the back-off allows; D4 consecutive attempts >= 1 s apart before the first establishment, >= 5 s after, never more than 120 s (+ housekeeping period) while down; D5 once a link's own faults are repaired (and no group-wide disturbance is in progress) it is connected within 30 s (+ the back-off in force at repair), rejoining with window 20000, in-flight 0, warming(0); D6 throughout, the C01 delivery oracle holds for every accepted datagram. Fault kinds are enumerated exhaustively, schedules are sampled. Non-trivial = schedule with >= 1 fault and >= 1 rejoin; distinct = distinct 6-grams of (arm kind x regime x gate x link-down). E6 live lane (12 sessions quick / 96 thorough): the PRODUCTION run_sender_with_config (real tokio::select! loop, reader tasks with recvmmsg, instant-ACK forwarder, timers, SIGHUP stream, control socket) runs in a real process (vlive) on loopback sockets and the real clock; the harness plays the SRT client, the SRTLA receiver model, path faults, receiver restarts, SIGHUP reloads and hostile return traffic, observes every datagram on both sides with kernel receive timestamps and uses the sender's own stats pushes (one per housekeeping tick) as its logical clock. Live oracles for this property: a connected uplink's socket is never re-opened earlier than the configured timeout after the last datagram the receiver side sent to it (kernel timestamp of the first frame from the new socket vs. the monitor's own send time; not judged where send errors are possible); after a black-hole / no-return fault is repaired the uplink is connected again (REG3 sent and stats connected) within 36 sender ticks, after a receiver restart or a forgotten group (REG_NGP or transient REG_ERR answers) the whole bond within 46; progress bounds are judged only in sessions without scheduling stalls of the harness or the sender.",
    assumptions: &[
        "unbounded 'retried forever' is decided as bounded progress over the finite schedule",
        "faults are modelled above the socket by the sim receiver (drop by path state); send errors by shutdown(Write) on the uplink socket",
        "D5 is suspended while a group-wide disturbance lasts (receiver restart until every stale link has timed out; all links down) and extended by the back-off in force when a binder failure ends (case split stated in DESIGN.md)",
    ],
    floors: &[
        ("sim.sessions_established", 40, 1500),
        ("fault.black_hole", 50, 1500),
        ("fault.no_return", 20, 600),
        ("fault.no_handshake_replies", 20, 600),
        ("fault.socket_send_error", 20, 600),
        ("fault.binder_failure", 20, 600),
        ("fault.receiver_forgot_group", 10, 300),
        ("fault.all_links_down", 5, 150),
        ("repair.black_hole", 50, 1500),
        ("repair.socket_replaced", 20, 600),
        ("D1.teardown.silence", 100, 3000),
        ("D1.teardown.send_error", 10, 300),
        ("D3.silent_links_watched", 100, 3000),
        ("D4.attempts", 500, 15_000),
        ("D4.plateau_gap_observed", 5, 150),
        ("D5.rejoined", 100, 3000),
        ("D5.rejoined_clean_checked", 100, 3000),
        ("D2.gated_link_survived_housekeeping", 20, 600),
        ("c01.unique_copy_delivered", 50_000, 1_500_000),
        ("live.sessions.timing_reliable", 6, 48),
        ("live.C08.teardown_vs_timeout_checked", 3, 24),
        ("live.C08.recoveries_observed", 2, 16),
    ],
};

pub fn run_case(rng: &mut crate::prng::Rng, rep: &mut Report) {
    let timeout = *rng.pick(&[1000u64, 1001, 2500, 5000, 5000, 15_000, 60_000]);
    let sc = ConfigSnapshot {
        mode: if rng.chance(1, 2) { SchedulingMode::Classic } else { SchedulingMode::Enhanced },
        quality_enabled: rng.chance(2, 3),
        stall_deselect: rng.chance(5, 6),
        stall_min_in_flight: *rng.pick(&[1, 4, 32]),
        stall_ack_stale_ms: *rng.pick(&[500, 1000, 3000]),
        conn_timeout_ms: timeout,
    };
    let opts = StreamOpts { n_links: 2 + rng.usize_below(3), cfg: sc, ticks: 0, probing: rng.chance(1, 2), faults: Faults::None, retransmit_pct: 3, control_pct: 3, critical_windows: false, big_jumps: false, initial_windows: None, loss_permille: 0, stall_min_in_flight_small: true, echo_fuzz: false, rate_pct: 100, short_sends: false };
    let want_sample = rep.wants_sample();
    if let Some(desc) = run_schedule(opts, rng, rep)
        && want_sample
    {
        rep.sample(serde_json::json!({"schedule": desc}));
    }
}


use crate::live::Scenario as S;
/// scenario mix of this property's live lane (E6)
#[allow(unused_imports)]
const LIVE_SCENARIOS: &[(S, u32)] = &[(S::BlackHole, 3), (S::NoReturn, 3), (S::Forget { err: false }, 1), (S::Forget { err: true }, 1), (S::Restart, 2)];

pub fn run(cfg: &RunCfg) -> Report {
    if crate::live::is_live_lane(cfg) {
        let mut rep = Report::new();
        crate::live::prop_lane(cfg, &mut rep, "C08", LIVE_SCENARIOS);
        return rep;
    }
    let cases = cfg.cases(64, 2400);
    let mut rep = run_cases(cfg, 0, cases, Duration::from_secs(3600), |_c, rng, rep| run_case(rng, rep));
    // E6: the production event loop in a real process (detection never before the timeout, bounded recovery)
    crate::live::prop_lane(cfg, &mut rep, "C08", LIVE_SCENARIOS);
    rep
}
