//! C09 — return path relays receiver traffic to the SRT client unmodified.
//! E1 with an arbitrary-bytes uplink generator (sim/monitors.rs::ReturnPathMon).

use std::time::Duration;

use srtla_core::config_snapshot::ConfigSnapshot;
use srtla_core::mode::SchedulingMode;

use crate::prng::Rng;
use crate::refcodec as rc;
use crate::report::{PropSpec, Report, RunCfg};
use crate::runner::run_cases;
use crate::sim::monitors::ReturnPathMon;
use crate::sim::stream::{Driver, Faults, Monitor, StreamOpts};

pub const SPEC: PropSpec = PropSpec {
    id: "C09",
    level: "exploration",
    rule: "E1 runs (1-3 uplinks through the real handshake, real handle_uplink_packet arm) in which an arbitrary-bytes generator injects uplink datagrams: EXHAUSTIVE over all 65536 two-byte type codes x lengths {2,3,9,10,19,20,38,258,1500} with PRNG bodies (sharded over the cases of a run), plus random lengths 0..1500, plus mutated valid frames (SRT ACK, SRT NAK with singles / ranges up to and beyond the 1000-entry cap, SRTLA ACK lists of 0..374 entries naming held, unheld and duplicate sequence numbers, keepalives with every timestamp class, REG2 full / short / foreign id, REG3, REG_ERR, REG_NGP, truncations of all of them), before and after the first client datagram, on registering / warming / live / awaiting-echo / silent / disconnected links, interleaved with client data (so sequences are held), housekeeping arms and sim-receiver replies. Oracle per injected datagram: reference classifier (len >= 2 and type in {REG2, REG3, REG_ERR, REG_NGP, SRTLA ACK, keepalive} = internal): client known and not internal => the client socket receives >= 1 datagram, all byte-identical to it; otherwise nothing; last_received = now for every non-registration datagram of >= 2 bytes; the delivery-proof stamp of a link moves only if that link lost a held sequence to an SRTLA ACK entry of this datagram or answered an outstanding keepalive probe (>= 10 bytes, 0 < now - ts <= 10 s); no panic (overflow checks on). Non-trivial = every injection; distinct = distinct (type code, length class, client known, link state) tuples. E6 live lane (12 sessions quick / 96 thorough): the PRODUCTION run_sender_with_config (real tokio::select! loop, reader tasks with recvmmsg, instant-ACK forwarder, timers, SIGHUP stream, control socket) runs in a real process (vlive) on loopback sockets and the real clock; the harness plays the SRT client, the SRTLA receiver model, path faults, receiver restarts, SIGHUP reloads and hostile return traffic, observes every datagram on both sides with kernel receive timestamps and uses the sender's own stats pushes (one per housekeeping tick) as its logical clock. Live oracles for this property: the SRT client never receives an SRTLA-internal datagram nor one the receiver side did not send; every non-internal datagram of >= 2 bytes sent to an undisturbed connected uplink (SRT ACK / NAK, unknown control types, data-looking, arbitrary bytes, truncated ACK / NAK, oversized NAK range) reaches the client at least as often as it was sent (judged only if the kernel's UDP drop counters did not move); REG3-typed, keepalive-typed and ragged SRTLA-ACK-typed junk and 1-byte datagrams must not kill the process.",
    assumptions: &["the sim SRT client reads the relayed bytes from a real loopback socket; loopback delivery is synchronous in practice (a missed relay would be re-checked against late frames only by re-running)"],
    floors: &[
        ("c09.injected", 600_000, 12_000_000),
        ("c09.exhaustive_type_codes_x_lengths", 589_824, 589_824),
        ("c09.relayed_compared", 10_000, 300_000),
        ("c09.internal_not_relayed", 10_000, 300_000),
        ("c09.liveness_stamped", 100_000, 8_000_000),
        ("c09.proof.earned_ack", 500, 15_000),
        ("c09.proof.answered_keepalive", 200, 3_000),
        ("c09.before_client_known", 5_000, 150_000),
        ("c09.nak_beyond_cap", 50, 1_500),
        ("c09.srtla_ack_lists", 2_000, 60_000),
        ("live.C09.completeness_checked", 4, 40),
        ("live.C09.hostile_datagrams_sent", 500, 4000),
        ("live.C09.return_datagrams_expected", 3000, 24000),
    ],
};

const LENS: [usize; 9] = [2, 3, 9, 10, 19, 20, 38, 258, 1500];

fn mutated_valid(rng: &mut Rng, d: &Driver, rep: &mut Report) -> Vec<u8> {
    let now = d.sim.now;
    let held: Vec<u32> = d.sim.conns.iter().flat_map(|c| c.packet_log.keys().take(40).map(|k| *k as u32).collect::<Vec<_>>()).collect();
    let mut v: Vec<u8> = match rng.below(12) {
        0 => rc::build_srt_ack(d.next_seq.wrapping_sub(rng.below(50) as u32), *rng.pick(&[20usize, 44, 100]), rng.below(256) as u8),
        1 => {
            let mut items = Vec::new();
            for _ in 0..(1 + rng.below(5)) {
                let s = if !held.is_empty() && rng.chance(1, 2) { held[rng.usize_below(held.len())] } else { rng.below(1 << 31) as u32 };
                items.push(if rng.chance(1, 3) { (s, Some(s.wrapping_add(rng.below(20) as u32) & 0x7fff_ffff)) } else { (s, None) });
            }
            rc::build_srt_nak(&items)
        }
        2 => {
            // ranges that reach / exceed the 1000-entry cap, reversed ranges, extreme ends
            rep.count("c09.nak_beyond_cap");
            let s = rng.below(1 << 30) as u32;
            let items = match rng.below(4) {
                0 => vec![(s, Some(s + 5000))],
                1 => vec![(s, Some(s + 999)), (s + 2000, None), (s + 3000, Some(s + 3010))],
                2 => vec![(s + 100, Some(s))],
                _ => vec![(0x7fff_fff0, Some(0xffff_ffff)), (s, None)],
            };
            rc::build_srt_nak(&items)
        }
        3 | 4 => {
            rep.count("c09.srtla_ack_lists");
            let n = *rng.pick(&[0usize, 1, 2, 10, 10, 10, 50, 374]);
            let list: Vec<u32> = (0..n)
                .map(|_| match rng.below(4) {
                    0 | 1 if !held.is_empty() => held[rng.usize_below(held.len())],
                    2 => d.next_seq.wrapping_add(rng.below(1000) as u32),
                    _ => rng.next_u32(),
                })
                .collect();
            rc::build_srtla_ack(&list)
        }
        5 | 6 => {
            let info = rc::KaInfo { conn_id: 9, window: 8, in_flight: 7, rtt_ms: 6, nak_count: 5, bitrate_bytes_per_sec: 4 };
            let ts = match rng.below(6) {
                0 => now.saturating_sub(1 + rng.below(800)),
                1 => now.saturating_sub(10_001 + rng.below(5000)),
                2 => now,
                3 => now + rng.below(1000),
                4 => 0,
                _ => now.saturating_sub(10_000),
            };
            if rng.chance(1, 3) { rc::build_keepalive10(ts) } else { rc::build_keepalive_ext(info, ts) }
        }
        7 => {
            let mut id = [0u8; 256];
            match rng.below(3) {
                0 => id.copy_from_slice(d.sim.reg.srtla_id()),
                1 => rng.fill(&mut id),
                _ => {
                    id.copy_from_slice(d.sim.reg.srtla_id());
                    id[200] ^= 1;
                }
            }
            rc::build_reg(0x9201, &id)
        }
        8 => vec![0x92, 0x02],
        9 => vec![0x92, if rng.chance(1, 2) { 0x10 } else { 0x11 }],
        10 => {
            // SRT data / handshake / shutdown towards the client
            let l = *rng.pick(&[16usize, 64, 1316]);
            let mut v = rng.bytes(l);
            v[0] = *rng.pick(&[0x00u8, 0x7f, 0x80, 0x80, 0x80]);
            v[1] = *rng.pick(&[0x00u8, 0x05, 0x06, 0x07]);
            v
        }
        _ => {
            let l = rng.usize_below(1501);
            rng.bytes(l)
        }
    };
    // truncations / extensions of valid frames
    match rng.below(8) {
        0 if !v.is_empty() => v.truncate(rng.usize_below(v.len())),
        1 => {
            let l = rng.usize_below(64);
            let extra = rng.bytes(l);
            v.extend_from_slice(&extra);
        }
        _ => {}
    }
    v.truncate(1500);
    v
}

pub fn run_case(case: u64, total_cases: u64, extra: usize, rng: &mut Rng, rep: &mut Report) {
    let sc = ConfigSnapshot { mode: if rng.chance(1, 2) { SchedulingMode::Classic } else { SchedulingMode::Enhanced }, ..ConfigSnapshot::default() };
    let opts = StreamOpts { n_links: 1 + rng.usize_below(3), cfg: sc, ticks: 0, probing: rng.chance(1, 2), faults: Faults::None, retransmit_pct: 5, control_pct: 5, critical_windows: false, big_jumps: false, initial_windows: None, loss_permille: 0, stall_min_in_flight_small: false, echo_fuzz: false, rate_pct: 100, short_sends: false };
    let mut d = Driver::new(opts, rng);
    d.capture_logs_always = true;
    let mut m = ReturnPathMon;
    let mut mons: [&mut dyn Monitor; 1] = [&mut m];
    // this case's shard of the exhaustive stratum
    let per = 65_536 / total_cases.max(1);
    let (lo, hi) = (case * per, if case + 1 == total_cases { 65_536 } else { (case + 1) * per });
    let mut exhaustive: Vec<(u16, usize)> = Vec::new();
    if case < total_cases && 65_536 % total_cases == 0 {
        for t in lo..hi {
            for l in LENS {
                exhaustive.push((t as u16, l));
            }
        }
        rng.shuffle(&mut exhaustive);
    }
    // phase A: before the session exists and before any client datagram (client unknown)
    let early = 40 + rng.usize_below(60);
    let mut sample: Vec<String> = Vec::new();
    let inject = |d: &mut Driver, rng: &mut Rng, rep: &mut Report, mons: &mut [&mut dyn Monitor], exhaustive: &mut Vec<(u16, usize)>, sample: &mut Vec<String>| {
        let i = rng.usize_below(d.sim.conns.len());
        let id = d.sim.conn_id(i);
        let bytes = if let Some((t, l)) = exhaustive.pop() {
            let mut v = rng.bytes(l);
            v[0..2].copy_from_slice(&t.to_be_bytes());
            rep.count("c09.exhaustive_type_codes_x_lengths");
            v
        } else {
            mutated_valid(rng, d, rep)
        };
        if d.sim.last_client_addr.is_none() {
            rep.count("c09.before_client_known");
        }
        if sample.len() < 12 {
            sample.push(format!("{} B type {:02x?}", bytes.len(), &bytes[..bytes.len().min(2)]));
        }
        d.arm_uplink(id, bytes, "fuzz", rng, mons, rep);
    };
    d.sim.startup(d.opts.probing);
    for _ in 0..early {
        let mut none: Vec<(u16, usize)> = Vec::new();
        inject(&mut d, rng, rep, &mut mons, &mut none, &mut sample);
    }
    let _ = d.establish(rng, &mut mons, rep);
    for _ in 0..early {
        let mut none: Vec<(u16, usize)> = Vec::new();
        inject(&mut d, rng, rep, &mut mons, &mut none, &mut sample);
    }
    // phase B: streaming with injections
    let budget = exhaustive.len() + extra;
    for step in 0..budget {
        if step % 7 == 0 {
            let dt = *rng.pick(&[0u64, 1, 5, 20, 100]);
            d.sim.advance(dt);
        }
        if rng.chance(1, 3) {
            let (p, seq, is_data, retr) = d.gen_payload(rng);
            d.arm_client(p, seq, is_data, retr, rng, &mut mons, rep);
        }
        if rng.chance(1, 40) {
            d.arm_flush(rng, &mut mons, rep);
        }
        if d.sim.now.saturating_sub(d.last_hk) >= 1000 {
            d.arm_housekeeping(rng, &mut mons, rep);
        }
        if rng.chance(1, 4) {
            d.deliver_due(rng, &mut mons, rep);
        }
        if rng.chance(1, 3000) {
            // let a link go silent past the timeout without housekeeping noticing yet
            d.sim.advance(5200);
        }
        inject(&mut d, rng, rep, &mut mons, &mut exhaustive, &mut sample);
    }
    if rep.wants_sample() {
        rep.sample(serde_json::json!({"links": d.sim.conns.len(), "type_code_shard": format!("{lo:#06x}..{hi:#06x}"), "first_injections": sample}));
    }
    if !d.sim.io_errors.is_empty() {
        rep.inconclusive(format!("harness I/O errors: {:?}", &d.sim.io_errors[..d.sim.io_errors.len().min(3)]));
    }
}


use crate::live::Scenario as S;
/// scenario mix of this property's live lane (E6)
#[allow(unused_imports)]
const LIVE_SCENARIOS: &[(S, u32)] = &[(S::HostileReturn, 4), (S::Steady, 1), (S::NoReturn, 1)];

pub fn run(cfg: &RunCfg) -> Report {
    if crate::live::is_live_lane(cfg) {
        let mut rep = Report::new();
        crate::live::prop_lane(cfg, &mut rep, "C09", LIVE_SCENARIOS);
        return rep;
    }
    // the exhaustive stratum is sharded over the first 64 cases (power of two so that 65536 divides evenly)
    let shards: u64 = 64;
    let cases = cfg.cases(64, 2048).max(shards);
    let extra = if cfg.tier == crate::report::Tier::Thorough && cfg.lane.is_none() { 8000 } else { 1500 };
    let mut rep = run_cases(cfg, 0, cases, Duration::from_secs(3600), |c, rng, rep| run_case(c, shards, extra, rng, rep));
    if rep.get("c09.exhaustive_type_codes_x_lengths") == 65_536 * 9 {
        rep.notes.insert("exhaustive_stratum".into(), serde_json::json!("all 65536 type codes x 9 lengths were injected in this run"));
    }
    // E6: the production event loop in a real process (reader tasks, recvmmsg, instant-ACK forwarder)
    crate::live::prop_lane(cfg, &mut rep, "C09", LIVE_SCENARIOS);
    rep
}
