//! C13 — stall latch: quick to drop, conservative to rejoin, never blind.
//!
//! Timed traces on 2-3 real links with an independent temporal monitor (T1-T4).
//! The monitor keeps its own per-link record (run start, silence-pull engagement)
//! and never reads the guard-private fields; it observes `stall_latched()`,
//! `is_stall_gated()`, `stall_gate_events()`, `silence_pulls()` after every select.

use std::time::Duration;

use srtla_core::config_snapshot::ConfigSnapshot;
use srtla_core::connection::SrtlaConnection;
use srtla_core::mode::SchedulingMode;
use srtla_core::selection::select_connection_idx;

use crate::prng::{Fnv, Rng};
use crate::report::{PropSpec, Report, RunCfg};
use crate::runner::run_cases;

pub const SPEC: PropSpec = PropSpec {
    id: "C13",
    level: "exploration",
    rule: "timed traces (scripted phases: stall, sustained recovery of 2W-1 / 2W / 2W+ / 3W with or without a lapse, single ACK, single echo, drain-only, silence then speech, drained-but-mute, random ops; 60-400 ops) on 2-3 real links, RTT baseline none/20/250/300/750/2000 ms from real samples, threshold 1/32/1000, ceiling 500/1000/3000/10000, call spacing 1 ms..5 s, both modes; one idle, regularly heard partner link keeps 'a healthier link exists' true in 70% of traces so that the silence pull is observable as gated && !latched. Independent temporal monitor: T1 engage only with proof != never, proof age >= W and (backlog >= threshold or held by the pull), gate-event counter +1 exactly on that edge; T2 release only by reset / guard off / an uninterrupted fresh-proof run of >= 2W kept by the monitor itself; T3 pull released only after the link was heard again or disconnected; T4 escalation permitted. W = clamp(4 x srtt, 1000, ceiling) (ceiling wins when below the floor; ceiling when no RTT). Non-trivial = trace with at least one latch engagement; distinct = distinct (edge kind, reason) 4-grams per trace.",
    assumptions: &[
        "integer truncation of 4 x srtt is allowed for: W_lo = clamp(4*floor(srtt)), W_hi = clamp(ceil(4*srtt)); engagement needs age >= W_lo, a run is cleared only when age >= W_hi, release needs run >= 2*W_lo (minimum over the run)",
        "the pull's own engage condition is not constrained by the property; for T1's second disjunct the monitor over-approximates 'held by the pull' from loaded && silent >= min(max(2*srtt,250),W)",
        "a pull release that coincides with a change of the link's smoothed RTT since engagement is counted as ambiguous, not as a violation (the window itself moved)",
    ],
    floors: &[
        ("select.calls", 200_000, 8_000_000),
        ("T1.engagements", 2_000, 80_000),
        ("T1.engagements_via_pull_escalation", 300, 10_000),
        ("T2.lawful_releases", 2_000, 80_000),
        ("T2.run_reset_by_lapse", 2_000, 80_000),
        ("T2.held_despite_single_proof", 2_000, 80_000),
        ("T2.held_despite_drained_backlog", 1_000, 40_000),
        ("T2.release_by_reset", 200, 8_000),
        ("T2.release_by_guard_off", 200, 8_000),
        ("T3.pull_observed", 1_000, 40_000),
        ("T3.pull_released_by_speech", 1_000, 40_000),
        ("T3.pull_held_while_drained_and_mute", 300, 10_000),
        ("never_proved_loaded_and_stale_but_not_latched", 1_000, 40_000),
        ("ceiling_below_floor.engagements", 200, 8_000),
    ],
};

#[derive(Default, Clone)]
struct Mon {
    latched: bool,
    events: u64,
    pulls: u64,
    run_start: Option<u64>,
    run_min_w: u64,
    maybe_pulled: bool,
    obs_pulled: bool,
    lr_at_pull: Option<u64>,
    srtt_at_pull: f64,
    proofs_since_latch: u32,
    drained_since_latch: bool,
}

struct Trace {
    conns: Vec<SrtlaConnection>,
    mons: Vec<Mon>,
    cfg: ConfigSnapshot,
    now: u64,
    partner: Option<usize>,
    seq: i32,
    guard: bool,
    edges: Vec<u64>,
    engaged_any: bool,
    t3_observable: bool,
}

fn w_bounds(c: &SrtlaConnection, ceiling: u64) -> (u64, u64) {
    let srtt = c.get_smooth_rtt_ms();
    if srtt <= 0.0 {
        return (ceiling, ceiling);
    }
    let lo = ((srtt.floor() as u64).saturating_mul(4)).max(1000).min(ceiling);
    let hi = (((srtt * 4.0).ceil()) as u64).max(1000).min(ceiling);
    (lo.min(hi), hi.max(lo))
}

fn pull_bounds(c: &SrtlaConnection, ceiling: u64) -> (u64, u64) {
    let srtt = c.get_smooth_rtt_ms();
    let (wlo, whi) = w_bounds(c, ceiling);
    if srtt <= 0.0 {
        return (250u64.min(wlo), 250u64.min(whi));
    }
    let lo = ((srtt.floor() as u64).saturating_mul(2)).max(250).min(wlo);
    let hi = (((srtt * 2.0).ceil()) as u64).max(250).min(whi);
    (lo.min(hi), hi.max(lo))
}

impl Trace {
    fn edge(&mut self, k: u64) {
        self.edges.push(k);
    }

    /// One real select followed by the temporal monitor.
    fn select(&mut self, rep: &mut Report) {
        let t = self.now;
        let mut cfg = self.cfg;
        cfg.stall_deselect = self.guard;
        let m = cfg.stall_min_in_flight;
        let ceiling = cfg.stall_ack_stale_ms;
        // pre-call observations the monitor needs
        struct Pre {
            connected: bool,
            inflight: i32,
            lr: Option<u64>,
            proof: u64,
            wlo: u64,
            whi: u64,
            plo: u64,
            phi: u64,
            srtt: f64,
        }
        let pre: Vec<Pre> = self
            .conns
            .iter()
            .map(|c| {
                let (wlo, whi) = w_bounds(c, ceiling);
                let (plo, phi) = pull_bounds(c, ceiling);
                Pre { connected: c.connected, inflight: c.in_flight_packets, lr: c.last_received, proof: c.last_ack_or_rtt_sample_ms, wlo, whi, plo, phi, srtt: c.get_smooth_rtt_ms() }
            })
            .collect();
        let r = select_connection_idx(&mut self.conns, None, t, &cfg);
        rep.eval();
        rep.count("select.calls");
        rep.t(|| {
            format!(
                "t={t} select(guard={}) -> {r:?} | per link (inflight, proof_age, recv_age, latched, gated, events): {:?}",
                self.guard,
                self.conns.iter().map(|c| (c.in_flight_packets, if c.last_ack_or_rtt_sample_ms == 0 { -1 } else { (t - c.last_ack_or_rtt_sample_ms) as i64 }, c.last_received.map(|l| (t - l) as i64).unwrap_or(-1), c.stall_latched(), c.is_stall_gated(), c.stall_gate_events())).collect::<Vec<_>>()
            )
        });
        let n = self.conns.len();
        for i in 0..n {
            let c = &self.conns[i];
            let p = &pre[i];
            let latched2 = c.stall_latched();
            let gated2 = c.is_stall_gated();
            let ev2 = c.stall_gate_events();
            let pulls2 = c.silence_pulls();
            let mut mon = self.mons[i].clone();
            if !self.guard {
                if latched2 || gated2 {
                    rep.violation("C13.guard-off.flag-left", format!("t={t} link {i}: guard off but latched={latched2} gated={gated2}"));
                }
                if mon.latched {
                    rep.count("T2.release_by_guard_off");
                    self.edges.push(30);
                }
                if ev2 != mon.events {
                    rep.violation("C13.T1.event-counter-moved-without-engagement", format!("t={t} link {i}: stall_gate_events {} -> {ev2} at a guard-off select", mon.events));
                }
                mon = Mon { events: ev2, pulls: pulls2, ..Default::default() };
                self.mons[i] = mon;
                continue;
            }
            // --- over-approximated pull state (for T1's second disjunct) ----------
            let recv_age = p.lr.map(|l| t.saturating_sub(l));
            if p.connected && p.inflight >= m && recv_age.is_some_and(|a| a >= p.plo) {
                mon.maybe_pulled = true;
            } else if mon.maybe_pulled && (!p.connected || recv_age.is_some_and(|a| a < p.plo)) {
                mon.maybe_pulled = false;
            }
            let proof_age = if p.proof == 0 { None } else { Some(t.saturating_sub(p.proof)) };
            // --- run bookkeeping (T2), evaluated like "at each select while latched" ---
            if mon.latched {
                match proof_age {
                    Some(a) if a < p.whi => {
                        if mon.run_start.is_none() {
                            mon.run_start = Some(t);
                            mon.run_min_w = p.wlo;
                        } else {
                            mon.run_min_w = mon.run_min_w.min(p.wlo);
                        }
                    }
                    _ => {
                        if mon.run_start.is_some() {
                            rep.count("T2.run_reset_by_lapse");
                            self.edges.push(21);
                        }
                        mon.run_start = None;
                    }
                }
            }
            // --- T1: engage ---------------------------------------------------------
            if !mon.latched && latched2 {
                let ok_proof = proof_age.is_some_and(|a| a >= p.wlo);
                let loaded = p.inflight >= m;
                if p.proof == 0 {
                    rep.violation("C13.T1.latched-without-any-proof", format!("t={t} link {i}: latch engaged on a link that never produced delivery proof (inflight {}, threshold {m})", p.inflight));
                } else if !ok_proof {
                    rep.violation("C13.T1.latched-with-fresh-proof", format!("t={t} link {i}: latch engaged with proof age {:?} < W (W in [{}, {}], ceiling {ceiling}, srtt {:.2})", proof_age, p.wlo, p.whi, p.srtt));
                } else if !(loaded || mon.maybe_pulled) {
                    rep.violation("C13.T1.latched-without-backlog-or-pull", format!("t={t} link {i}: latch engaged with in-flight {} < threshold {m} and no silence pull possible (recv age {:?}, pull window [{}, {}])", p.inflight, recv_age, p.plo, p.phi));
                }
                if ev2 != mon.events + 1 {
                    rep.violation("C13.T1.event-counter", format!("t={t} link {i}: engagement edge but stall_gate_events {} -> {ev2}", mon.events));
                }
                rep.count("T1.engagements");
                if !loaded && mon.maybe_pulled {
                    rep.count("T1.engagements_via_pull_escalation");
                    self.edges.push(11);
                } else {
                    self.edges.push(10);
                }
                if ceiling < 1000 {
                    rep.count("ceiling_below_floor.engagements");
                }
                self.engaged_any = true;
                mon.run_start = None;
                mon.proofs_since_latch = 0;
                mon.drained_since_latch = false;
            } else {
                if ev2 != mon.events {
                    rep.violation("C13.T1.event-counter-moved-without-engagement", format!("t={t} link {i}: stall_gate_events {} -> {ev2} with latched {} -> {latched2}", mon.events, mon.latched));
                }
                if !latched2 && p.proof == 0 && p.connected && p.inflight >= m && m >= 0 {
                    rep.count("never_proved_loaded_and_stale_but_not_latched");
                }
            }
            // --- T2: release ----------------------------------------------------------
            if mon.latched && !latched2 {
                let need = 2 * mon.run_min_w.min(p.wlo);
                let ok = mon.run_start.is_some_and(|s| t.saturating_sub(s) >= need);
                if !ok {
                    let sig = if mon.run_start.is_none() {
                        "C13.T2.released-without-fresh-run"
                    } else {
                        "C13.T2.released-before-dwell"
                    };
                    rep.violation(
                        sig,
                        format!(
                            "t={t} link {i}: latch released with monitor run start {:?} (run length {:?} ms), required >= 2 x W = {need} ms (W in [{}, {}], srtt {:.2}, ceiling {ceiling}); proof age {:?}, in-flight {}, proofs since latch {}",
                            mon.run_start,
                            mon.run_start.map(|s| t - s),
                            p.wlo,
                            p.whi,
                            p.srtt,
                            proof_age,
                            p.inflight,
                            mon.proofs_since_latch
                        ),
                    );
                }
                rep.count("T2.lawful_releases");
                self.edges.push(20);
                mon.run_start = None;
            } else if mon.latched && latched2 {
                if mon.proofs_since_latch == 1 {
                    rep.count("T2.held_despite_single_proof");
                }
                if mon.drained_since_latch && p.inflight < m {
                    rep.count("T2.held_despite_drained_backlog");
                }
            }
            // --- T3: pull (observable only with a healthy partner) ------------------
            let obs_pulled2 = gated2 && !latched2;
            if self.t3_observable && self.partner.is_some() && Some(i) != self.partner {
                if !mon.obs_pulled && obs_pulled2 {
                    rep.count("T3.pull_observed");
                    self.edges.push(40);
                    mon.lr_at_pull = p.lr;
                    mon.srtt_at_pull = p.srtt;
                } else if mon.obs_pulled && !gated2 && !latched2 {
                    // released (not escalated)
                    let spoke = match (p.lr, mon.lr_at_pull) {
                        (Some(a), Some(b)) => a > b,
                        (Some(_), None) => true,
                        _ => false,
                    };
                    if spoke {
                        rep.count("T3.pull_released_by_speech");
                        self.edges.push(41);
                    } else if !p.connected {
                        rep.count("T3.pull_released_by_disconnect");
                        self.edges.push(42);
                    } else if (p.srtt - mon.srtt_at_pull).abs() > 1e-9 {
                        rep.count("T3.ambiguous_release_with_rtt_change");
                    } else {
                        rep.violation(
                            "C13.T3.pull-released-without-speech",
                            format!("t={t} link {i}: silence pull released although the link was not heard since engagement (last_received {:?} at engagement, {:?} now), still connected; in-flight {} (threshold {m})", mon.lr_at_pull, p.lr, p.inflight),
                        );
                    }
                } else if mon.obs_pulled && obs_pulled2 && p.inflight < m {
                    rep.count("T3.pull_held_while_drained_and_mute");
                } else if mon.obs_pulled && latched2 {
                    rep.count("T4.pull_escalated_to_latch");
                }
            }
            if pulls2 < mon.pulls {
                rep.violation("C13.T3.pull-counter-decreased", format!("t={t} link {i}: silence_pulls {} -> {pulls2}", mon.pulls));
            }
            mon.obs_pulled = obs_pulled2;
            mon.latched = latched2;
            mon.events = ev2;
            mon.pulls = pulls2;
            self.mons[i] = mon;
        }
        // partner sanity: if the partner itself got latched / gated the pull is no longer observable
        if let Some(p) = self.partner
            && (self.conns[p].stall_latched() || self.conns[p].is_stall_gated())
        {
            self.t3_observable = false;
        }
    }

    fn advance(&mut self, dt: u64) {
        // keep the partner heard at least every 200 ms of virtual time
        let mut left = dt;
        while left > 0 {
            let step = left.min(200);
            self.now += step;
            left -= step;
            if let Some(p) = self.partner
                && self.conns[p].connected
            {
                self.conns[p].last_received = Some(self.now);
            }
        }
    }

    fn check_counter_quiet(&mut self, rep: &mut Report, what: &str) {
        for (i, c) in self.conns.iter().enumerate() {
            if c.stall_gate_events() != self.mons[i].events {
                rep.violation("C13.T1.event-counter-moved-without-engagement", format!("t={} link {i}: stall_gate_events {} -> {} in op {what}", self.now, self.mons[i].events, c.stall_gate_events()));
                self.mons[i].events = c.stall_gate_events();
            }
        }
    }

    fn load(&mut self, link: usize, n: u32) {
        for _ in 0..n {
            self.seq += 1;
            let (s, t) = (self.seq, self.now);
            self.conns[link].register_packet(s, t);
        }
    }

    fn earned_ack(&mut self, link: usize) -> bool {
        let classic = self.cfg.mode.is_classic();
        let t = self.now;
        let c = &mut self.conns[link];
        if !c.connected {
            return false;
        }
        if c.packet_log.is_empty() {
            self.seq += 1;
            c.register_packet(self.seq, t);
        }
        let s = *c.packet_log.keys().next().unwrap();
        let ok = c.handle_srtla_ack_specific(s, classic, t);
        c.last_received = Some(t);
        if ok {
            self.mons[link].proofs_since_latch += 1;
        }
        ok
    }

    /// Keepalive echo with round-trip `rtt` ms, the way uplink_recv handles it.
    fn echo(&mut self, link: usize, rtt: u64) -> bool {
        let t = self.now;
        let c = &mut self.conns[link];
        if !c.connected {
            return false;
        }
        let sent = t.saturating_sub(rtt);
        // arm a probe and build the frame that will be echoed
        c.rtt.waiting_for_keepalive_response = false;
        c.rtt.last_rtt_measurement_ms = 0;
        let pkt = c.keepalive_packet(sent);
        c.last_received = Some(t);
        let label = c.label.clone();
        if c.rtt.handle_keepalive_response(&pkt, &label, t).is_some() {
            c.record_rtt_probe();
            c.last_ack_or_rtt_sample_ms = t;
            self.mons[link].proofs_since_latch += 1;
            return true;
        }
        false
    }

    fn heard(&mut self, link: usize) {
        let t = self.now;
        let c = &mut self.conns[link];
        if c.connected {
            c.last_received = Some(t);
        }
    }

    fn drain_all(&mut self) {
        let a = self.seq;
        let t = self.now;
        for (i, c) in self.conns.iter_mut().enumerate() {
            // strip send times so that the cumulative ACK carries no RTT sample
            c.handle_srt_ack(a, t);
            self.mons[i].drained_since_latch = true;
        }
    }

    fn reset(&mut self, link: usize, kind: u64, rep: &mut Report) {
        let t = self.now;
        let c = &mut self.conns[link];
        if kind == 0 {
            c.mark_for_recovery();
        } else {
            c.reset_for_reconnect(t);
        }
        if c.stall_latched() || c.is_stall_gated() {
            rep.violation("C13.reset.flag-left", format!("t={t} link {link}: reset kind {kind} left latched={} gated={}", c.stall_latched(), c.is_stall_gated()));
        }
        if self.mons[link].latched {
            rep.count("T2.release_by_reset");
            self.edges.push(31);
        }
        let ev = c.stall_gate_events();
        let pulls = c.silence_pulls();
        // REG3 again
        c.clear_pre_registration_state(t);
        c.connected = true;
        c.last_received = Some(t);
        c.reconnection.connection_established_ms = c.reconnection.connection_established_ms.max(1);
        self.mons[link] = Mon { events: ev, pulls, ..Default::default() };
    }
}

fn mk_link(i: usize, t0: u64, rtt: Option<u64>) -> SrtlaConnection {
    let mut c = SrtlaConnection::new_registering(0x7000 + i as u64, format!("L{i}"), std::net::IpAddr::V4(std::net::Ipv4Addr::new(127, 0, 0, 10 + i as u8)), t0 - 40_000);
    c.clear_pre_registration_state(t0 - 35_000);
    c.connected = true;
    c.last_received = Some(t0);
    c.reconnection.connection_established_ms = t0 - 35_000;
    c.record_rtt_probe();
    c.record_rtt_probe();
    if let Some(ms) = rtt {
        for k in 0..8 {
            c.rtt.update_estimate(ms, t0 - 1000 + k * 10);
        }
    }
    c
}

pub fn run_trace(rng: &mut Rng, rep: &mut Report) {
    let n = 2 + rng.usize_below(2);
    let t0 = 50_000_000 + rng.below(1_000_000);
    let cfg = ConfigSnapshot {
        mode: if rng.chance(1, 2) { SchedulingMode::Classic } else { SchedulingMode::Enhanced },
        quality_enabled: rng.chance(1, 2),
        stall_deselect: true,
        stall_min_in_flight: *rng.pick(&[1, 32, 32, 32, 1000]),
        stall_ack_stale_ms: *rng.pick(&[500, 1000, 3000, 3000, 10_000]),
        conn_timeout_ms: 600_000,
    };
    let partner = if rng.chance(7, 10) { Some(rng.usize_below(n)) } else { None };
    let rtts = [None, Some(20u64), Some(250), Some(300), Some(750), Some(2000)];
    let conns: Vec<SrtlaConnection> = (0..n).map(|i| mk_link(i, t0, *rng.pick(&rtts))).collect();
    let mut tr = Trace { mons: vec![Mon::default(); n], conns, cfg, now: t0, partner, seq: 1_000_000, guard: true, edges: Vec::new(), engaged_any: false, t3_observable: true };
    let m = cfg.stall_min_in_flight;
    let targets: Vec<usize> = (0..n).filter(|i| Some(*i) != partner).collect();
    let spacing = |rng: &mut Rng| -> u64 {
        match rng.below(10) {
            0..=3 => 1 + rng.below(20),
            4..=6 => 20 + rng.below(200),
            7..=8 => 200 + rng.below(800),
            _ => 1000 + rng.below(4000),
        }
    };
    let phases = 3 + rng.usize_below(8);
    let mut sample_phases: Vec<String> = Vec::new();
    for _ in 0..phases {
        let link = *rng.pick(&targets);
        let ceiling = cfg.stall_ack_stale_ms;
        let (wlo, whi) = w_bounds(&tr.conns[link], ceiling);
        let kind = rng.below(12);
        sample_phases.push(format!("phase{kind}(l{link})"));
        match kind {
            0..=2 => {
                // Stall: load, one proof, then silence of proof until stale (+ extra); link keeps being heard or not
                let loadn = if m >= 1000 { 1000 + rng.below(50) as u32 } else { (m as u32) + rng.below(40) as u32 };
                tr.load(link, loadn);
                if rng.chance(4, 5) {
                    if rng.chance(1, 2) { tr.earned_ack(link); } else { tr.echo(link, 30 + rng.below(300)); }
                }
                let keep_heard = rng.chance(1, 2);
                let total = whi + rng.below(whi + 500);
                let mut el = 0;
                while el < total {
                    let d = spacing(rng).min(total - el).max(1);
                    tr.advance(d);
                    el += d;
                    if keep_heard {
                        tr.heard(link);
                    }
                    tr.select(rep);
                }
            }
            3..=5 => {
                // Recovery attempt: proofs every delta < W for a duration around 2W, optional lapse
                let dur = match rng.below(5) {
                    0 => 2 * wlo - 1,
                    1 => 2 * whi,
                    2 => 2 * whi + 50,
                    3 => 3 * whi,
                    _ => rng.below(3 * whi + 1),
                };
                let lapse_at = if rng.chance(1, 3) { Some(rng.below(dur.max(1))) } else { None };
                let mut el = 0u64;
                let mut lapsed = false;
                // first proof starts the run
                if rng.chance(1, 2) { tr.earned_ack(link); } else { tr.echo(link, 20 + rng.below(200)); }
                tr.select(rep);
                while el < dur {
                    let mut d = (1 + rng.below(wlo.max(2) - 1)).min(dur - el).max(1);
                    if let Some(l) = lapse_at
                        && !lapsed
                        && el >= l
                    {
                        d = whi + rng.below(300);
                        lapsed = true;
                    }
                    // selects inside the gap too (dense decisions)
                    let sub = 1 + rng.below(3);
                    for _ in 0..sub {
                        tr.advance((d / sub).max(1));
                        tr.select(rep);
                    }
                    el += d;
                    if rng.chance(1, 2) { tr.earned_ack(link); } else { tr.echo(link, 20 + rng.below(200)); }
                    tr.select(rep);
                }
            }
            6 => {
                // single proof then only time
                if rng.chance(1, 2) { tr.earned_ack(link); } else { tr.echo(link, 40); }
                for _ in 0..(3 + rng.below(10)) {
                    tr.advance(spacing(rng));
                    tr.select(rep);
                }
            }
            7 => {
                // backlog drained by cumulative ACKs, link mute
                tr.drain_all();
                for _ in 0..(3 + rng.below(10)) {
                    tr.advance(spacing(rng));
                    tr.select(rep);
                }
            }
            8..=9 => {
                // Silence pull: loaded and totally silent, then speech (or drain first)
                let loadn = if m >= 1000 { 1000 + rng.below(50) as u32 } else { (m as u32) + rng.below(40) as u32 };
                tr.load(link, loadn);
                tr.heard(link);
                let (plo, phi) = pull_bounds(&tr.conns[link], ceiling);
                let _ = plo;
                let mut el = 0;
                let total = phi + rng.below(400);
                while el < total {
                    let d = (1 + rng.below(120)).min(total - el).max(1);
                    tr.advance(d);
                    el += d;
                    tr.select(rep);
                }
                if rng.chance(1, 2) {
                    tr.drain_all();
                    for _ in 0..(1 + rng.below(5)) {
                        tr.advance(1 + rng.below(100));
                        tr.select(rep);
                    }
                }
                if rng.chance(3, 4) {
                    tr.heard(link);
                    tr.select(rep);
                }
            }
            10 => {
                // reset / guard toggle / disconnect
                match rng.below(4) {
                    0 => tr.reset(link, 0, rep),
                    1 => tr.reset(link, 1, rep),
                    2 => {
                        tr.guard = false;
                        tr.select(rep);
                        tr.advance(spacing(rng));
                        tr.select(rep);
                        tr.guard = true;
                    }
                    _ => {
                        tr.conns[link].connected = false;
                        tr.conns[link].last_received = None;
                        tr.select(rep);
                        tr.advance(50);
                        tr.select(rep);
                        // REG3 brings it back
                        let t = tr.now;
                        let c = &mut tr.conns[link];
                        c.clear_pre_registration_state(t);
                        c.connected = true;
                        c.last_received = Some(t);
                    }
                }
                tr.check_counter_quiet(rep, "reset/toggle");
            }
            _ => {
                // random ops
                for _ in 0..(5 + rng.below(30)) {
                    let l = *rng.pick(&targets);
                    match rng.below(8) {
                        0 => tr.load(l, 1 + rng.below(50) as u32),
                        1 => {
                            tr.earned_ack(l);
                        }
                        2 => {
                            tr.echo(l, 1 + rng.below(1500));
                        }
                        3 => tr.heard(l),
                        4 => tr.drain_all(),
                        _ => {}
                    }
                    tr.check_counter_quiet(rep, "random op");
                    tr.advance(spacing(rng));
                    tr.select(rep);
                }
            }
        }
    }
    rep.count("traces");
    if tr.engaged_any {
        rep.count("traces.with_engagement");
        for w in tr.edges.windows(4) {
            let mut f = Fnv::new();
            for k in w {
                f.u64(*k);
            }
            f.u64(cfg.stall_min_in_flight as u64);
            f.u64(cfg.stall_ack_stale_ms);
            rep.distinct(f.finish());
        }
        if rep.wants_sample() {
            rep.sample(serde_json::json!({"links": n, "partner": partner, "config": format!("{cfg:?}"), "phases": sample_phases, "edge_sequence (10 engage,11 engage via pull,20 release,21 run reset,30 guard off,31 reset,40 pull,41 pull released by speech)": tr.edges.iter().take(40).collect::<Vec<_>>() }));
        }
    }
    let _ = tr.edge(0);
}

pub fn run(cfg: &RunCfg) -> Report {
    let cases = cfg.cases(300_000, 6_000_000);
    run_cases(cfg, 0, cases, Duration::from_secs(3600), |_c, rng, rep| run_trace(rng, rep))
}
