//! C02 — per-link in-flight count equals packets sent and not yet retired.
//! Refinement monitor: seeded histories driven through the production dispatch
//! (`process_connection_events`, `attribute_nak`, `queue_data_packet`/`take_batch`,
//! the three reset functions), compared after every event with a per-link set
//! model of outstanding sequence numbers.

use std::collections::BTreeSet;
use std::net::{IpAddr, Ipv4Addr};
use std::time::Duration;

use serde_json::json;
use srtla_core::connection::{SrtlaConnection, SrtlaIncoming};
use srtla_send::sender::SequenceTracker;
use srtla_send::sender::verif_hooks as vh;

use crate::prng::{Fnv, Rng};
use crate::report::{PropSpec, Report, RunCfg};
use crate::rt;
use crate::runner::run_cases;

pub const SPEC: PropSpec = PropSpec {
    id: "C02",
    level: "exploration",
    rule: "seeded histories (50-600 events, 1-4 links, base sequence anywhere in a non-wrapping 31-bit span) of sends through queue_data_packet+take_batch (incl. retransmissions at/below the last ACK and probe copies on a second link), cumulative ACKs (in-order, far ahead, duplicate, stale, first of a link's life), SRTLA ACK lists, NAK lists and the three resets, all through the shell's process_connection_events. After EVERY event each link's in_flight_packets / packet log / get_score() is compared with a BTreeSet model. Non-trivial = the history contains a send at or below an earlier cumulative ACK; distinct = distinct 5-grams of (event kind, sub-kind) over those histories.",
    assumptions: &[
        "sequence numbers stay inside a span of the 31-bit space that does not wrap (as the property states)",
        "for an SRTLA ACK / NAK of a sequence held by several links the monitor follows whichever single holder the implementation retired (the property allows any one holder; precise NAK attribution is C05)",
    ],
    floors: &[
        ("histories.deep_backlog", 2_000, 50_000),
        ("clock.jump_between_operations", 50_000, 1_000_000),
        ("max.outstanding_per_link", 1_000, 1_200),
        ("ack.path.skip", 1_000, 50_000),
        ("ack.path.fast", 1_000, 50_000),
        ("ack.path.retain", 1_000, 50_000),
        ("send.at_or_below_last_ack", 500, 20_000),
        ("send.at_or_below_last_ack.then_acked", 500, 20_000),
        ("srtla_ack.resolved_on_other_link", 500, 20_000),
        ("srtla_ack.resolved_on_arrival_link", 500, 20_000),
        ("nak.charged", 500, 20_000),
        ("nak.unknown", 500, 20_000),
        ("reset.mark_for_recovery", 200, 5_000),
        ("reset.reset_for_reconnect", 200, 5_000),
        ("reset.clear_pre_registration_state", 200, 5_000),
        ("send.same_seq_two_links", 500, 20_000),
    ],
};

struct Link {
    out: BTreeSet<i32>,
    queued: Vec<Option<u32>>,
}

pub struct Hist {
    pub conns: Vec<SrtlaConnection>,
    model: Vec<Link>,
    tracker: SequenceTracker,
    now: u64,
}

fn mk_conn(i: usize, now: u64) -> SrtlaConnection {
    let mut c = SrtlaConnection::new_registering(
        1000 + i as u64,
        format!("L{i}"),
        IpAddr::V4(Ipv4Addr::new(127, 0, 0, 10 + i as u8)),
        now,
    );
    // what the shell does on REG3
    c.clear_pre_registration_state(now);
    c.connected = true;
    c.last_received = Some(now);
    c.reconnection.connection_established_ms = now;
    c
}

fn data_pkt(seq: u32, len: usize) -> Vec<u8> {
    let mut v = vec![0u8; len.max(16)];
    v[0..4].copy_from_slice(&seq.to_be_bytes());
    v
}

thread_local! {
    /// deep-backlog histories (thousands outstanding per link) compare the full sets only every 16th operation;
    /// the count, score and queue comparisons stay on every operation
    static SPARSE_FULL_COMPARE: std::cell::Cell<(bool, u64)> = const { std::cell::Cell::new((false, 0)) };
}

fn check_all(h: &Hist, rep: &mut Report, what: &str, detail: &dyn Fn() -> String) -> bool {
    let mut ok = true;
    let (sparse, tick) = SPARSE_FULL_COMPARE.with(|c| {
        let (s, t) = c.get();
        c.set((s, t + 1));
        (s, t)
    });
    let full = !sparse || tick % 16 == 0;
    for (i, (c, m)) in h.conns.iter().zip(h.model.iter()).enumerate() {
        rep.eval();
        let real_n = c.in_flight_packets;
        rep.max("max.outstanding_per_link", m.out.len() as u64);
        if !full {
            if real_n as usize != m.out.len() || c.packet_log.len() != m.out.len() {
                rep.violation("C02.inflight.mismatch", format!("after {what} link {i}: in_flight_packets={real_n} log size {} model={} | {}", c.packet_log.len(), m.out.len(), detail()));
                ok = false;
            }
            continue;
        }
        if real_n < 0 {
            rep.violation("C02.inflight.negative", format!("link {i} in_flight {real_n} after {what}: {}", detail()));
            ok = false;
        }
        let real_set: BTreeSet<i32> = c.packet_log.keys().copied().collect();
        if real_n as usize != m.out.len() || real_set != m.out {
            let extra: Vec<i32> = real_set.difference(&m.out).copied().take(5).collect();
            let missing: Vec<i32> = m.out.difference(&real_set).copied().take(5).collect();
            let sig = if what == "cumack" && missing.is_empty() {
                "C02.cumack.not-retired-at-or-below-ack"
            } else if what == "cumack" {
                "C02.cumack.retired-above-ack"
            } else {
                "C02.inflight.mismatch"
            };
            rep.violation(
                sig,
                format!(
                    "after {what} link {i}: in_flight_packets={real_n} model={} | in log but retired in model: {:?} | outstanding in model but gone: {:?} | {}",
                    m.out.len(), extra, missing, detail()
                ),
            );
            ok = false;
        }
        if !ok {
            continue;
        }
        let expect_score = if !c.connected {
            -1
        } else {
            let denom = (m.out.len() as i64 + m.queued.len() as i64 + 1).max(1);
            (c.window as i64 / denom) as i32
        };
        if c.get_score() != expect_score {
            rep.violation(
                "C02.score.mismatch",
                format!("after {what} link {i}: get_score()={} expected window {} / ({}+{}+1) = {} connected={}", c.get_score(), c.window, m.out.len(), m.queued.len(), expect_score, c.connected),
            );
            ok = false;
        }
        if c.batch_sender.queued_count() as usize != m.queued.len() {
            rep.violation("C02.queue.mismatch", format!("after {what} link {i}: queued_count {} model {}", c.batch_sender.queued_count(), m.queued.len()));
            ok = false;
        }
    }
    ok
}

/// Adopt the implementation's state into the model (after a reported mismatch) so
/// the rest of the history is still checked.
fn resync(h: &mut Hist) {
    for (c, m) in h.conns.iter().zip(h.model.iter_mut()) {
        m.out = c.packet_log.keys().copied().collect();
        let q = c.batch_sender.queued_count() as usize;
        m.queued.resize(q, None);
    }
}

fn flush(h: &mut Hist, i: usize) {
    let now = h.now;
    let batch = h.conns[i].take_batch(now);
    let m = &mut h.model[i];
    for s in m.queued.drain(..).flatten() {
        m.out.insert(s as i32);
    }
    let _ = batch;
}

pub fn run_history(rng: &mut Rng, rep: &mut Report, direct_core: bool) {
    let n = 1 + rng.usize_below(4);
    let t0 = 1_000_000 + rng.below(1_000_000);
    let mut h = Hist {
        conns: (0..n).map(|i| mk_conn(i, t0)).collect(),
        model: (0..n).map(|_| Link { out: BTreeSet::new(), queued: Vec::new() }).collect(),
        tracker: SequenceTracker::new(),
        now: t0,
    };
    let classic = rng.chance(1, 2);
    let base: u32 = match rng.below(4) {
        0 => rng.below(1000) as u32,
        1 => (1u32 << 31) - 25_000 + rng.below(1000) as u32,
        _ => rng.below((1u64 << 31) - 30_000) as u32,
    };
    let mut next_seq = base;
    let mut last_ack: Option<u32> = None; // highest cumulative ACK issued so far
    let mut below_ack_sent: Vec<u32> = Vec::new(); // seqs sent at/below an earlier ack and not yet re-acked
    // one history in twelve builds a deep backlog: sends dominate, cumulative ACKs are rare and small, so that
    // hundreds to thousands of sequences are outstanding per link (stalled receiver, long RTT)
    let deep = rng.chance(1, 12);
    SPARSE_FULL_COMPARE.with(|c| c.set((deep, 0)));
    if deep {
        rep.count("histories.deep_backlog");
    }
    let n_ops = if deep { 600 + rng.usize_below(1400) } else { 50 + rng.usize_below(551) };
    let mut kinds: Vec<u64> = Vec::with_capacity(n_ops);
    let mut has_post_ack_retrans = false;
    let mut sample_ops: Vec<String> = Vec::new();
    let want_sample = rep.wants_sample();
    let sock = if direct_core { None } else { Some(rt::block_on(async { tokio::net::UdpSocket::bind("127.0.0.1:0").await.expect("bind") })) };

    for _ in 0..n_ops {
        h.now += rng.below(21);
        // arbitrary spacing: now and then seconds to a minute pass between two operations (added after seeded defect
        // C02e, an age-based prune of the packet log that only long-outstanding entries can show)
        if rng.chance(1, 60) {
            h.now += *rng.pick(&[1_000u64, 4_000, 9_999, 10_001, 12_000, 60_000]);
            rep.count("clock.jump_between_operations");
        }
        rt::set_now(h.now);
        let now = h.now;
        let w = if deep { rng.weighted(&[60, 2, 8, 8, 2, 3, 17]) } else { rng.weighted(&[50, 14, 10, 8, 4, 4, 3]) };
        match w {
            0 => {
                // send
                let link = rng.usize_below(n);
                let (seq, sub) = match rng.below(20) {
                    0..=1 if last_ack.is_some() => {
                        // retransmission of a sequence at or below the last cumulative ACK
                        let la = last_ack.unwrap();
                        let back = rng.below(40) as u32;
                        (la.saturating_sub(back).max(base.saturating_sub(0)), 1u64)
                    }
                    2 if next_seq > base => {
                        // retransmission of something recent (maybe still outstanding)
                        (next_seq - 1 - rng.below((next_seq - base).min(50) as u64) as u32, 2)
                    }
                    3 => {
                        // jump ahead
                        next_seq = next_seq.saturating_add(1 + rng.below(200) as u32).min(base + 20_000);
                        let s = next_seq;
                        next_seq += 1;
                        (s, 3)
                    }
                    _ => {
                        let s = next_seq;
                        next_seq = (next_seq + 1).min(base + 20_000);
                        (s, 0)
                    }
                };
                if let Some(la) = last_ack
                    && seq <= la
                {
                    rep.count("send.at_or_below_last_ack");
                    has_post_ack_retrans = true;
                    below_ack_sent.push(seq);
                }
                let pkt = data_pkt(seq, 16 + rng.usize_below(64));
                let need = h.conns[link].queue_data_packet(&pkt, Some(seq), now);
                h.model[link].queued.push(Some(seq));
                h.tracker.insert(seq, h.conns[link].conn_id, now);
                let mut sub = sub;
                // probe copy of the same sequence on another link
                if n > 1 && rng.chance(1, 12) {
                    let other = (link + 1 + rng.usize_below(n - 1)) % n;
                    let need2 = h.conns[other].queue_data_packet(&pkt, Some(seq), now);
                    h.model[other].queued.push(Some(seq));
                    rep.count("send.same_seq_two_links");
                    sub += 10;
                    if need2 || rng.chance(1, 2) {
                        flush(&mut h, other);
                    }
                }
                if need || rng.chance(1, 3) {
                    flush(&mut h, link);
                }
                rep.t(|| format!("t={now} send link={link} seq={seq} sub={sub}"));
                if want_sample && sample_ops.len() < 40 {
                    sample_ops.push(format!("send(l{link},{})", seq as i64 - base as i64));
                }
                kinds.push(sub);
                check_all(&h, rep, "send", &|| format!("send link {link} seq {seq}"));
            }
            1 => {
                // cumulative ACK
                let la = last_ack.unwrap_or(base.saturating_sub(1));
                let (a, sub) = match rng.below(10) {
                    0..=4 => (la.saturating_add(1 + rng.below(64) as u32), 100u64),
                    5..=6 => (la.saturating_add(65 + rng.below(5000) as u32), 101),
                    7 => (la, 102),
                    8 => (la.saturating_sub(1 + rng.below(100) as u32), 103),
                    _ => (next_seq.saturating_sub(1), 104),
                };
                let a = a.min((1u32 << 31) - 1);
                // classify which path each link's handler will take (coverage only)
                for c in h.conns.iter() {
                    let hw = c.highest_acked_seq;
                    if (a as i32) <= hw {
                        rep.count("ack.path.skip");
                    } else if hw != i32::MIN && (a as i64 - hw as i64) <= 64 {
                        rep.count("ack.path.fast");
                    } else {
                        rep.count("ack.path.retain");
                    }
                    if hw == i32::MIN {
                        rep.count("ack.first_of_link_life");
                    }
                }
                let before: Vec<usize> = below_ack_sent.iter().filter(|s| **s <= a).map(|_| 1).collect();
                if !before.is_empty() {
                    rep.add("send.at_or_below_last_ack.then_acked", before.len() as u64);
                    below_ack_sent.retain(|s| *s > a);
                }
                let mut inc = SrtlaIncoming { read_any: true, ..Default::default() };
                inc.ack_numbers.push(a);
                dispatch(&mut h, sock.as_ref(), 0, classic, inc, direct_core);
                for m in h.model.iter_mut() {
                    m.out.retain(|s| *s > a as i32);
                }
                if last_ack.is_none_or(|l| a > l) {
                    last_ack = Some(a);
                }
                rep.t(|| format!("t={now} cumack a={a} sub={sub}"));
                if want_sample && sample_ops.len() < 40 {
                    sample_ops.push(format!("cumack({})", a as i64 - base as i64));
                }
                kinds.push(sub);
                if !check_all(&h, rep, "cumack", &|| format!("cumulative ACK {a} (last issued before: {:?})", la)) {
                    resync(&mut h);
                }
            }
            2 => {
                // SRTLA ACK list on an arrival link
                let arrival = rng.usize_below(n);
                let k = 1 + rng.usize_below(8);
                let mut list: Vec<u32> = Vec::new();
                for _ in 0..k {
                    let src = rng.below(10);
                    let pick_from = |set: &BTreeSet<i32>, rng: &mut Rng| -> Option<u32> {
                        if set.is_empty() {
                            None
                        } else {
                            let idx = rng.usize_below(set.len().min(64));
                            set.iter().nth(idx).map(|v| *v as u32)
                        }
                    };
                    let s = match src {
                        0..=4 => pick_from(&h.model[arrival].out, rng),
                        5..=7 => {
                            let o = rng.usize_below(n);
                            pick_from(&h.model[o].out, rng)
                        }
                        8 => list.last().copied(),
                        _ => Some(next_seq + 5 + rng.below(1000) as u32),
                    };
                    list.push(s.unwrap_or(next_seq + 7));
                }
                let mut inc = SrtlaIncoming { read_any: true, ..Default::default() };
                for s in &list {
                    inc.srtla_ack_numbers.push(*s);
                }
                // snapshot holders before
                let before: Vec<BTreeSet<i32>> = h.conns.iter().map(|c| c.packet_log.keys().copied().collect()).collect();
                dispatch(&mut h, sock.as_ref(), arrival, classic, inc, direct_core);
                // model: per entry, arrival first, else exactly one other holder (follow the implementation)
                let after: Vec<BTreeSet<i32>> = h.conns.iter().map(|c| c.packet_log.keys().copied().collect()).collect();
                let uniq: BTreeSet<i32> = list.iter().map(|s| *s as i32).collect();
                for s in uniq {
                    let times = list.iter().filter(|x| **x as i32 == s).count();
                    let holders: Vec<usize> = (0..n).filter(|i| h.model[*i].out.contains(&s)).collect();
                    let lost: Vec<usize> = (0..n).filter(|i| before[*i].contains(&s) && !after[*i].contains(&s)).collect();
                    if holders.is_empty() {
                        rep.count("srtla_ack.unknown");
                        continue;
                    }
                    let arrival_holds = holders.contains(&arrival);
                    let expect_n = times.min(holders.len());
                    let ok = lost.len() == expect_n
                        && lost.iter().all(|l| holders.contains(l))
                        && (!arrival_holds || lost.contains(&arrival));
                    if !ok {
                        rep.violation(
                            "C02.srtla_ack.wrong-retirement",
                            format!("SRTLA ACK {s} x{times} on arrival link {arrival}: holders {holders:?}, links that lost it {lost:?} (expected {expect_n}, arrival link first)"),
                        );
                    }
                    for l in &lost {
                        h.model[*l].out.remove(&s);
                        if *l == arrival {
                            rep.count("srtla_ack.resolved_on_arrival_link");
                        } else {
                            rep.count("srtla_ack.resolved_on_other_link");
                            if holders.len() > 1 {
                                rep.count("srtla_ack.several_holders");
                            }
                        }
                    }
                }
                rep.t(|| format!("t={now} srtla_ack arrival={arrival} list={list:?}"));
                if want_sample && sample_ops.len() < 40 {
                    sample_ops.push(format!("srtla_ack(l{arrival},{:?})", list.iter().map(|s| *s as i64 - base as i64).collect::<Vec<_>>()));
                }
                kinds.push(200 + list.len().min(3) as u64);
                if !check_all(&h, rep, "srtla_ack", &|| format!("SRTLA ACK list {list:?} on arrival link {arrival}")) {
                    resync(&mut h);
                }
            }
            3 => {
                // NAK list
                let k = 1 + rng.usize_below(6);
                let mut list: Vec<u32> = Vec::new();
                for _ in 0..k {
                    let o = rng.usize_below(n);
                    let s = match rng.below(6) {
                        0..=2 if !h.model[o].out.is_empty() => {
                            let idx = rng.usize_below(h.model[o].out.len().min(64));
                            *h.model[o].out.iter().nth(idx).unwrap() as u32
                        }
                        3 => list.last().copied().unwrap_or(next_seq + 3),
                        4 => last_ack.unwrap_or(base),
                        _ => next_seq + 10 + rng.below(1000) as u32,
                    };
                    list.push(s);
                    // short consecutive run (range-like)
                    if rng.chance(1, 4) {
                        for d in 1..=rng.below(4) as u32 {
                            list.push(s + d);
                        }
                    }
                }
                let arrival = rng.usize_below(n);
                let mut inc = SrtlaIncoming { read_any: true, ..Default::default() };
                for s in &list {
                    inc.nak_numbers.push(*s);
                }
                let before: Vec<BTreeSet<i32>> = h.conns.iter().map(|c| c.packet_log.keys().copied().collect()).collect();
                let naks_before: Vec<i32> = h.conns.iter().map(|c| c.total_nak_count()).collect();
                dispatch(&mut h, sock.as_ref(), arrival, classic, inc, direct_core);
                let after: Vec<BTreeSet<i32>> = h.conns.iter().map(|c| c.packet_log.keys().copied().collect()).collect();
                // Model: process entries in order; for each, at most one holder loses it.
                // (Entries are applied sequentially by the implementation, so evaluate
                // the aggregate: every sequence that left a log must have been NAKed and held.)
                let mut charged_total = 0i64;
                for s in list.iter().map(|s| *s as i32).collect::<BTreeSet<_>>() {
                    let holders: Vec<usize> = (0..n).filter(|i| h.model[*i].out.contains(&s)).collect();
                    let lost: Vec<usize> = (0..n).filter(|i| before[*i].contains(&s) && !after[*i].contains(&s)).collect();
                    let times = list.iter().filter(|x| **x as i32 == s).count();
                    if holders.is_empty() {
                        rep.count("nak.unknown");
                        if !lost.is_empty() {
                            rep.violation("C02.nak.retired-unheld", format!("NAK {s}: nobody held it in the model but links {lost:?} lost it"));
                        }
                    } else {
                        // each occurrence in the list can charge at most one holder
                        // A NAK may legitimately charge nobody (the remembered owner no
                        // longer holds it — see C05); it may never retire more links than
                        // it has occurrences, nor a link that did not hold it.
                        if lost.is_empty() {
                            rep.count("nak.held_but_not_charged");
                        }
                        if lost.len() > times || lost.iter().any(|l| !holders.contains(l)) {
                            rep.violation(
                                "C02.nak.wrong-retirement",
                                format!("NAK {s} x{times}: holders {holders:?}, links that lost it {lost:?}"),
                            );
                        }
                        for l in &lost {
                            h.model[*l].out.remove(&s);
                            charged_total += 1;
                            rep.count("nak.charged");
                        }
                    }
                }
                let nak_delta: i64 = h.conns.iter().zip(naks_before.iter()).map(|(c, b)| (c.total_nak_count() - b) as i64).sum();
                if nak_delta != charged_total {
                    rep.violation("C02.nak.count-vs-retired", format!("NAK list {list:?}: nak_count grew by {nak_delta} but {charged_total} log entries were retired"));
                }
                rep.t(|| format!("t={now} nak list={list:?}"));
                if want_sample && sample_ops.len() < 40 {
                    sample_ops.push(format!("nak({:?})", list.iter().map(|s| *s as i64 - base as i64).collect::<Vec<_>>()));
                }
                kinds.push(300 + list.len().min(3) as u64);
                if !check_all(&h, rep, "nak", &|| format!("NAK list {list:?}")) {
                    resync(&mut h);
                }
            }
            4 => {
                // reset
                let link = rng.usize_below(n);
                let kind = rng.below(3);
                match kind {
                    0 => {
                        h.conns[link].mark_for_recovery();
                        rep.count("reset.mark_for_recovery");
                    }
                    1 => {
                        h.conns[link].reset_for_reconnect(now);
                        rep.count("reset.reset_for_reconnect");
                    }
                    _ => {
                        // REG3 on this link (also how a reset link becomes connected again)
                        h.conns[link].clear_pre_registration_state(now);
                        h.conns[link].connected = true;
                        h.conns[link].last_received = Some(now);
                        rep.count("reset.clear_pre_registration_state");
                    }
                }
                h.model[link].out.clear();
                h.model[link].queued.clear();
                rep.t(|| format!("t={now} reset link={link} kind={kind}"));
                if want_sample && sample_ops.len() < 40 {
                    sample_ops.push(format!("reset(l{link},k{kind})"));
                }
                kinds.push(400 + kind);
                check_all(&h, rep, "reset", &|| format!("reset kind {kind} link {link}"));
            }
            5 => {
                // flush every link (timer flush)
                for i in 0..n {
                    if h.conns[i].has_queued_packets() {
                        flush(&mut h, i);
                    }
                }
                kinds.push(500);
                check_all(&h, rep, "flush", &|| "timer flush".to_string());
            }
            _ => {
                // batch of in-order sends on one link, flushed by threshold only
                let link = rng.usize_below(n);
                let cnt = 1 + rng.usize_below(40);
                for _ in 0..cnt {
                    let s = next_seq;
                    next_seq = (next_seq + 1).min(base + 20_000);
                    let pkt = data_pkt(s, 32);
                    let need = h.conns[link].queue_data_packet(&pkt, Some(s), now);
                    h.model[link].queued.push(Some(s));
                    h.tracker.insert(s, h.conns[link].conn_id, now);
                    if need {
                        flush(&mut h, link);
                    }
                }
                kinds.push(600);
                check_all(&h, rep, "burst", &|| format!("burst of {cnt} on link {link}"));
            }
        }
    }
    SPARSE_FULL_COMPARE.with(|c| c.set((false, 0)));
    check_all(&h, rep, "end", &|| "end of history".to_string());
    rep.count("histories");
    if has_post_ack_retrans {
        rep.count("histories.with_post_ack_retransmission");
        for wnd in kinds.windows(5) {
            let mut f = Fnv::new();
            for k in wnd {
                f.u64(*k);
            }
            rep.distinct(f.finish());
        }
    }
    if want_sample && rep.wants_sample() {
        rep.sample(json!({"links": n, "classic": classic, "base_seq": base, "first_events_relative_to_base": sample_ops}));
    }
}

fn dispatch(h: &mut Hist, sock: Option<&tokio::net::UdpSocket>, idx: usize, classic: bool, inc: SrtlaIncoming, direct_core: bool) {
    let now = h.now;
    if direct_core || sock.is_none() {
        // FFI-free path for the Miri lane: the same statement sequence as
        // process_connection_events, minus the socket.
        for ack in inc.ack_numbers.iter() {
            for c in h.conns.iter_mut() {
                c.handle_srt_ack(*ack as i32, now);
            }
        }
        for s in inc.srtla_ack_numbers.iter() {
            let found = h.conns[idx].handle_srtla_ack_specific(*s as i32, classic, now);
            if !found {
                for (i, c) in h.conns.iter_mut().enumerate() {
                    if i == idx {
                        continue;
                    }
                    if c.handle_srtla_ack_specific(*s as i32, classic, now) {
                        break;
                    }
                }
            }
            for c in h.conns.iter_mut() {
                c.handle_srtla_ack_global();
            }
        }
        for nak in inc.nak_numbers.iter() {
            vh::attribute_nak(&mut h.conns, &h.tracker, *nak, now);
        }
        return;
    }
    let sock = sock.unwrap();
    let conns = &mut h.conns;
    let tracker = &h.tracker;
    rt::block_on(async {
        let _ = vh::process_connection_events(idx, conns, None, sock, tracker, classic, inc).await;
    });
}

pub fn run(cfg: &RunCfg) -> Report {
    let miri = cfg.lane.as_deref() == Some("miri");
    let cases = cfg.cases(60_000, 1_500_000);
    let rep = run_cases(cfg, 0, cases, Duration::from_secs(3600), |_case, rng, rep| {
        run_history(rng, rep, miri);
    });
    rt::clear_now();
    rep
}
