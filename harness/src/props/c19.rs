//! C19 — IP-list reload never strands the stream and never disturbs survivors.

use std::time::Duration;

use srtla_core::config_snapshot::ConfigSnapshot;
use srtla_core::mode::SchedulingMode;
use srtla_send::sender::verif_hooks as vh;

use crate::prng::Rng;
use crate::report::{PropSpec, Report, RunCfg};
use crate::runner::run_cases;
use crate::sim::reload::{gen_file_text, ref_parse, run_reload_case};
use crate::sim::stream::{Faults, StreamOpts};

pub const SPEC: PropSpec = PropSpec {
    id: "C19",
    level: "exploration",
    rule: "(a) parser differential: generated file contents (0-8 lines: blank, tabs, surrounding / non-breaking spaces, CRLF, IPv4, ::1, garbage, trailing junk, out-of-range octets, leading zeros, duplicates, missing final newline) through the production analyze_ip_reload_text / analyze_ip_reload (real temp files incl. missing ones) against a reference (split on LF, strip one CR, trim, skip blank, IpAddr::from_str): refuse iff no parsable line, else exactly the parsable lines in order. (b) E1 runs: session established through the real handshake on 1-4 uplinks drawn from 127.0.0.10..30, then 2-10 reloads mid-stream (datagrams queued, in flight and tracked): each accepted list is applied by the production apply_connection_changes at the tail of a real housekeeping arm; the checker compares before/after: link list = survivors in old order ++ each new address once; survivors keep conn_id, socket (Arc identity) and full state fingerprint; removed links lose their I/O handle and every tracker record of a sequence they carried (survivors' records still resolve); new links are registering with a socket bound to their address; previous routing choice forgotten iff a link was removed. The run continues under the C01 delivery oracle so a dangling index or mis-keyed map shows as mis-routing. Non-trivial = applied reload that removed or added a link; distinct = distinct (old size, survivors, removed, added, selected-link-removed, list length) tuples. E6 live lane (12 sessions quick / 96 thorough): the PRODUCTION run_sender_with_config (real tokio::select! loop, reader tasks with recvmmsg, instant-ACK forwarder, timers, SIGHUP stream, control socket) runs in a real process (vlive) on loopback sockets and the real clock; the harness plays the SRT client, the SRTLA receiver model, path faults, receiver restarts, SIGHUP reloads and hostile return traffic, observes every datagram on both sides with kernel receive timestamps and uses the sender's own stats pushes (one per housekeeping tick) as its logical clock. Live oracles for this property (real SIGHUP on a real file): 4 sender ticks after the signal the uplinks reported by the sender equal the parsable lines (as a set, each once) or - for an empty / garbage-only / missing file - the previous list; surviving uplinks never re-open their socket; a removed uplink's address falls silent; an added address registers within 14 ticks; no datagram ever comes from an unlisted address. Every session that was not refused does a second reload, half of the time back to exactly the start-up file, checked the same way.",
    assumptions: &[
        "'parsable address' is std's IpAddr::from_str on the trimmed line; line splitting and trimming are re-implemented",
        "IPv6 loopback entries are parsed and applied but cannot reach the IPv4 receiver socket of the harness, so they never produce a link here (create_connections_from_ips logs the failure)",
        "datagrams still queued on a link removed by a reload are outside C01's quantifier and exempt in the delivery oracle",
    ],
    floors: &[
        ("parser.inputs", 100_000, 4_000_000),
        ("parser.refused", 10_000, 400_000),
        ("parser.applied_with_skipped_lines", 10_000, 400_000),
        ("sim.sessions_established", 40, 1500),
        ("reload.applies", 150, 5_000),
        ("reload.applied_with_removals_and_additions", 30, 1_000),
        ("reload.refused.missing_file", 10, 300),
        ("reload.refused.empty", 10, 300),
        ("reload.refused.no_valid_address", 10, 300),
        ("reload.removed_the_selected_link", 20, 600),
        ("reload.survivors_compared", 150, 5_000),
        ("reload.tracker_records_of_removed_checked", 500, 15_000),
        ("reload.tracker_records_of_survivors_checked", 5_000, 150_000),
        ("reload.new_links_checked", 100, 3_000),
        ("live.C19.reloads_checked", 12, 96),
        ("live.C19.second_reloads_checked", 4, 32),
        ("live.C19.back_to_startup_reloads_checked", 1, 8),
    ],
};

fn parser_case(rng: &mut Rng, rep: &mut Report) {
    let pool: Vec<std::net::IpAddr> = (10..31u8).map(|x| std::net::IpAddr::V4(std::net::Ipv4Addr::new(127, 0, 0, x))).collect();
    for _ in 0..200 {
        let text = gen_file_text(rng, &pool);
        let exp = ref_parse(&text);
        rep.eval();
        rep.count("parser.inputs");
        match vh::analyze_ip_reload_text(&text) {
            vh::IpReload::Refuse(_) => {
                rep.count("parser.refused");
                if !exp.is_empty() {
                    rep.violation("C19.parser.refused-although-parsable", format!("text {text:?}: parsable {exp:?} but refused"));
                }
            }
            vh::IpReload::Apply { ips, first_invalid_line } => {
                if first_invalid_line.is_some() {
                    rep.count("parser.applied_with_skipped_lines");
                }
                if exp.is_empty() {
                    rep.violation("C19.parser.applied-without-parsable-address", format!("text {text:?}: nothing parsable but applied {ips:?}"));
                } else if ips.as_slice() != exp.as_slice() {
                    rep.violation("C19.parser.list-differs", format!("text {text:?}: applied {ips:?}, reference {exp:?}"));
                }
            }
        }
        let mut f = crate::prng::Fnv::new();
        f.str(&text);
        if !exp.is_empty() {
            rep.distinct(f.finish());
        }
    }
}


use crate::live::ReloadKind as K;
use crate::live::Scenario as S;
/// scenario mix of this property's live lane (E6)
#[allow(unused_imports)]
const LIVE_SCENARIOS: &[(S, u32)] = &[(S::Reload(K::Remove), 2), (S::Reload(K::Add), 2), (S::Reload(K::Replace), 2), (S::Reload(K::Messy), 3), (S::Reload(K::RefusedEmpty), 1), (S::Reload(K::RefusedGarbage), 1), (S::Reload(K::RefusedMissing), 1)];

pub fn run(cfg: &RunCfg) -> Report {
    if crate::live::is_live_lane(cfg) {
        let mut rep = Report::new();
        crate::live::prop_lane(cfg, &mut rep, "C19", LIVE_SCENARIOS);
        return rep;
    }
    let pc = cfg.cases(600, 20_000);
    let mut rep = run_cases(cfg, 0, pc, Duration::from_secs(3600), |_c, rng, rep| parser_case(rng, rep));
    let cases = cfg.cases(64, 2000);
    let e1 = run_cases(cfg, 1, cases, Duration::from_secs(3600), |c, rng, rep| {
        let sc = ConfigSnapshot { mode: if rng.chance(1, 2) { SchedulingMode::Classic } else { SchedulingMode::Enhanced }, ..ConfigSnapshot::default() };
        let opts = StreamOpts { n_links: 1 + rng.usize_below(4), cfg: sc, ticks: 0, probing: rng.chance(1, 2), faults: Faults::None, retransmit_pct: 3, control_pct: 3, critical_windows: false, big_jumps: false, initial_windows: None, loss_permille: 10, stall_min_in_flight_small: false, echo_fuzz: false, rate_pct: 100, short_sends: false };
        let want = rep.wants_sample();
        if let Some(s) = run_reload_case(opts, rng, rep, c)
            && want
        {
            rep.sample(s);
        }
    });
    rep.merge(e1);
    // E6: the production event loop in a real process (real SIGHUP, real file, real sockets)
    crate::live::prop_lane(cfg, &mut rep, "C19", LIVE_SCENARIOS);
    rep
}
