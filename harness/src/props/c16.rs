//! C16 — per-link CC soft cap and loss latch stay bounded and honest.
//! History monitor over snapshots: the bare `LinkCongestionState` (volume) and
//! `LinkCcController::tick_all` over real connections (counters from real sends /
//! NAKs / resets, links appearing and disappearing).

use std::collections::HashMap;
use std::time::Duration;

use srtla_core::connection::SrtlaConnection;
use srtla_core::selection::link_cc::{CcState, LinkCcController, LinkCcSnapshot, LinkCongestionState};

use crate::prng::{Fnv, Rng};
use crate::report::{PropSpec, Report, RunCfg};
use crate::runner::run_cases;

pub const SPEC: PropSpec = PropSpec {
    id: "C16",
    level: "exploration",
    rule: "tick histories (200-4000 ticks, spacing 1 ms..30 s, irregular) on the bare LinkCongestionState (record_rtt / observe_traffic / tick) and on LinkCcController::tick_all over real connections: RTT {none for a while, steady, ramps to 1.4x/1.6x/2.1x of the minimum and back, oscillation around 2.0x forcing drain re-entry, handover steps}, observed bitrate {0, steady, 100x one-tick bursts, falling with the target}, loss {none, 0.4%, 0.6%, 2%, 60%, 100%, responding / not responding to the back-off}, cumulative byte and NAK counters incl. resets (going backwards), links that vanish and return (controller GC). Per tick, with P the previous and N the new snapshot and o the observed rate (o' after the documented 4x outlier clamp): B1 100k <= target <= 200M and floor + Bootstrap while no RTT sample was ever fed; B2 a lowering only in BackingOff (>= 0.85 P, >= min(o', P), never above P) or on entry to Drain (= max(0.75 P, floor)); B3 a growth <= 6% of P and <= 2 o, except the initial seeding (<= 1.06 max(o', 1M)); B4 loss_degraded latches only after the observed loss average was > 0.55 at every tick of an interval >= 4 s and clears only at a tick with average < 0.25; B5 finite floats, 0 <= loss average <= 1. Non-trivial = history that visited BackingOff or Drain; distinct = distinct (state, target bucket, latch) 3-grams.",
    assumptions: &["+-1 bit/s tolerance for the integer truncation of the target; 1e-9 on float thresholds", "the monitor's loss-average record is the sequence of snapshot().loss_ewma values it observed tick by tick"],
    floors: &[
        ("ticks", 2_000_000, 80_000_000),
        ("state.bootstrap", 5_000, 200_000),
        ("state.climbing", 5_000, 200_000),
        ("state.holding", 5_000, 200_000),
        ("state.backing_off", 5_000, 200_000),
        ("state.drain", 5_000, 200_000),
        ("drain.entries", 1_000, 40_000),
        ("drain.stayed", 1_000, 40_000),
        ("target.at_floor_after_seeding", 1_000, 40_000),
        ("backoff.held_by_delivered_floor", 1_000, 40_000),
        ("growth.capped_by_2x_measured", 1_000, 40_000),
        ("growth.at_6pct", 1_000, 40_000),
        ("latch.set", 500, 20_000),
        ("latch.cleared", 500, 20_000),
        ("latch.high_but_not_yet_4s", 1_000, 40_000),
        ("controller.gc_events", 500, 20_000),
        ("controller.all_links_vanished", 200, 8_000),
        ("controller.returned_as_fresh_connection", 200, 8_000),
        ("controller.ticks", 200_000, 8_000_000),
        ("counter.reset_observed", 500, 20_000),
    ],
};

const FLOOR: u64 = 100_000;
const CEIL: u64 = 200_000_000;

struct Mon {
    prev: Option<LinkCcSnapshot>,
    rtt_ever: bool,
    seeded: bool,
    high_since: Option<u64>,
    kinds: Vec<u64>,
    visited_cut: bool,
}

impl Mon {
    fn new() -> Self {
        Mon { prev: None, rtt_ever: false, seeded: false, high_since: None, kinds: Vec::new(), visited_cut: false }
    }

    /// `rtt_fed`: a valid (finite, > 0) RTT sample was fed at or before this tick.
    fn check(&mut self, n: &LinkCcSnapshot, o: u64, t: u64, rtt_fed: bool, rep: &mut Report, who: &str) {
        rep.eval();
        rep.count("ticks");
        if rtt_fed {
            self.rtt_ever = true;
        }
        rep.count(match n.state {
            CcState::Bootstrap => "state.bootstrap",
            CcState::Climbing => "state.climbing",
            CcState::Holding => "state.holding",
            CcState::BackingOff => "state.backing_off",
            CcState::Drain => "state.drain",
        });
        // ---- B5 ------------------------------------------------------------------------------------
        if !n.rtt_ewma_ms.is_finite() || !n.rtt_var_ms.is_finite() || !n.rtt_min_ms.is_finite() || !n.loss_ewma.is_finite() {
            rep.violation("C16.B5.non-finite", format!("{who} t={t}: snapshot {n:?}"));
        }
        if !(0.0..=1.0).contains(&n.loss_ewma) {
            rep.violation("C16.B5.loss-average-out-of-range", format!("{who} t={t}: loss average {}", n.loss_ewma));
        }
        // ---- B1 --------------------------------------------------------------------------------------
        if !(FLOOR..=CEIL).contains(&n.target_bps) {
            rep.violation("C16.B1.target-out-of-range", format!("{who} t={t}: target {} outside [100k, 200M] (state {:?}, observed {o})", n.target_bps, n.state));
        }
        if !self.rtt_ever && (n.target_bps != FLOOR || n.state != CcState::Bootstrap) {
            rep.violation("C16.B1.left-floor-without-rtt", format!("{who} t={t}: no RTT sample was ever fed but target {} state {:?}", n.target_bps, n.state));
        }
        if n.target_bps == CEIL {
            rep.count("target.at_ceiling");
        }
        let p = self.prev;
        let p_target = p.map(|p| p.target_bps).unwrap_or(FLOOR);
        let p_state = p.map(|p| p.state).unwrap_or(CcState::Bootstrap);
        let base = p_target.max(1_000_000) as f64;
        let o_c = (o as f64).min(4.0 * base);
        let initial_seeding = self.rtt_ever && !self.seeded;
        if initial_seeding {
            // first tick with an RTT sample: seeded from measured throughput (>= 1 Mbit/s), then the state rule applies once
            let seed = o_c.max(1_000_000.0);
            if n.target_bps as f64 > 1.06 * seed + 1.0 {
                rep.violation("C16.B3.initial-seed-too-high", format!("{who} t={t}: initial seeding to {} with observed {o} (clamped {o_c})", n.target_bps));
            }
            self.seeded = true;
            rep.count("seeding.initial");
        } else if self.seeded {
            if n.target_bps == FLOOR {
                rep.count("target.at_floor_after_seeding");
            }
            let reseed = p_target == FLOOR && (n.target_bps as f64) > (1.06 * p_target as f64).ceil() + 1.0;
            if reseed {
                rep.violation("C16.B3.reseed-from-floor", format!("{who} t={t}: target jumped from the floor {} to {} (previous state {p_state:?}, new state {:?}, observed {o}) long after the initial seeding", p_target, n.target_bps, n.state));
            }
            // ---- B2: lowering -----------------------------------------------------------------------------
            if n.target_bps < p_target {
                self.visited_cut = true;
                match n.state {
                    CcState::BackingOff => {
                        let min_allowed = (0.85 * p_target as f64).floor() - 1.0;
                        let delivered = o_c.min(p_target as f64) - 1.0;
                        if (n.target_bps as f64) < min_allowed {
                            rep.violation("C16.B2.backoff-cut-deeper-than-0.85", format!("{who} t={t}: back-off {} -> {} (< 0.85 x)", p_target, n.target_bps));
                        }
                        if (n.target_bps as f64) < delivered {
                            rep.violation("C16.B2.backoff-below-delivered-rate", format!("{who} t={t}: back-off {} -> {} although the link measurably delivers {o} (clamped {o_c})", p_target, n.target_bps));
                        }
                        if (n.target_bps as f64) > 0.85 * p_target as f64 + 1.0 {
                            rep.count("backoff.held_by_delivered_floor");
                        }
                    }
                    CcState::Drain if p_state != CcState::Drain => {
                        let exp = ((0.75 * p_target as f64).floor() as u64).max(FLOOR);
                        if n.target_bps.abs_diff(exp) > 1 {
                            rep.violation("C16.B2.drain-entry-cut-not-0.75", format!("{who} t={t}: drain entry {} -> {} expected {exp}", p_target, n.target_bps));
                        }
                    }
                    CcState::Drain => {
                        rep.violation("C16.B2.drain-cut-again-while-drained", format!("{who} t={t}: a tick that stayed in Drain lowered the target {} -> {}", p_target, n.target_bps));
                    }
                    s => {
                        rep.violation("C16.B2.lowered-outside-backoff-or-drain", format!("{who} t={t}: target lowered {} -> {} in state {s:?} (previous state {p_state:?}, observed {o})", p_target, n.target_bps));
                    }
                }
            }
            if n.state == CcState::BackingOff && n.target_bps > p_target && !reseed {
                rep.violation("C16.B2.backoff-raised-target", format!("{who} t={t}: a loss back-off raised the target {} -> {} (observed {o})", p_target, n.target_bps));
            }
            if n.state == CcState::Drain {
                if p_state != CcState::Drain {
                    rep.count("drain.entries");
                    self.visited_cut = true;
                } else {
                    rep.count("drain.stayed");
                }
            }
            // ---- B3: growth -----------------------------------------------------------------------------------------
            if n.target_bps > p_target {
                let cap6 = (1.06 * p_target as f64).ceil() + 1.0;
                let cap2x = 2.0 * o as f64 + 1.0;
                if !reseed {
                    if n.target_bps as f64 > cap6 {
                        rep.violation("C16.B3.growth-over-6pct", format!("{who} t={t}: target grew {} -> {} (> 6%) in state {:?}", p_target, n.target_bps, n.state));
                    }
                    if n.target_bps as f64 > cap2x {
                        rep.violation("C16.B3.growth-beyond-2x-measured", format!("{who} t={t}: target grew {} -> {} beyond twice the measured rate {o}", p_target, n.target_bps));
                    }
                }
                if (n.target_bps as f64) >= 1.0599 * p_target as f64 {
                    rep.count("growth.at_6pct");
                }
                if (n.target_bps as f64) < 1.02 * p_target as f64 - 1.0 && (2.0 * o_c - n.target_bps as f64).abs() <= 2.0 {
                    rep.count("growth.capped_by_2x_measured");
                }
            }
        }
        // ---- B4: loss latch -------------------------------------------------------------------------------------------
        if n.loss_ewma > 0.55 {
            if self.high_since.is_none() {
                self.high_since = Some(t);
            }
        } else {
            self.high_since = None;
        }
        let p_latched = p.map(|p| p.loss_degraded).unwrap_or(false);
        if !p_latched && n.loss_degraded {
            rep.count("latch.set");
            if !self.high_since.is_some_and(|s| t - s >= 4000) {
                rep.violation("C16.B4.latched-early", format!("{who} t={t}: loss_degraded latched although the observed loss average has been above 0.55 only since {:?} (now {})", self.high_since, n.loss_ewma));
            }
        }
        if !n.loss_degraded && self.high_since.is_some() {
            rep.count("latch.high_but_not_yet_4s");
        }
        if p_latched && !n.loss_degraded {
            rep.count("latch.cleared");
            if n.loss_ewma >= 0.25 {
                rep.violation("C16.B4.cleared-above-0.25", format!("{who} t={t}: loss_degraded cleared at loss average {}", n.loss_ewma));
            }
        }
        self.kinds.push((n.state as u64) * 100 + (n.target_bps.ilog2() as u64) * 2 + n.loss_degraded as u64);
        rep.t(|| format!("{who} t={t} o={o} -> {:?} target {} loss_ewma {:.3} latched {} rtt_ewma {:.1} rtt_min {:.1}", n.state, n.target_bps, n.loss_ewma, n.loss_degraded, n.rtt_ewma_ms, n.rtt_min_ms));
        self.prev = Some(*n);
    }

    fn finish(&self, rep: &mut Report) {
        if self.visited_cut {
            for w in self.kinds.windows(3) {
                let mut f = Fnv::new();
                for k in w {
                    f.u64(*k);
                }
                rep.distinct(f.finish());
            }
        }
    }
}

struct Gen {
    rtt_base: f64,
    rtt_mode: u64,
    rtt_phase_left: u64,
    bps_mode: u64,
    bps: f64,
    loss_mode: u64,
    phase_left: u64,
}

impl Gen {
    fn new(rng: &mut Rng) -> Self {
        Gen { rtt_base: *rng.pick(&[8.0, 20.0, 60.0, 150.0, 600.0]), rtt_mode: 0, rtt_phase_left: 0, bps_mode: 0, bps: 2_000_000.0, loss_mode: 0, phase_left: 0 }
    }

    /// next (rtt sample, observed bps, sent packets, lost packets)
    fn next(&mut self, rng: &mut Rng, target: u64, k: u64) -> (Option<f64>, u64, u64, u64) {
        if self.phase_left == 0 {
            self.phase_left = 10 + rng.below(120);
            self.bps_mode = rng.below(7);
            self.loss_mode = rng.below(9);
            self.bps = *rng.pick(&[0.0, 150_000.0, 2_000_000.0, 8_000_000.0, 60_000_000.0, 400_000_000.0]);
        }
        self.phase_left -= 1;
        if self.rtt_phase_left == 0 {
            self.rtt_phase_left = 10 + rng.below(100);
            self.rtt_mode = rng.below(9);
            if rng.chance(1, 6) {
                self.rtt_base = *rng.pick(&[8.0, 20.0, 60.0, 150.0, 600.0]);
            }
        }
        self.rtt_phase_left -= 1;
        let rtt = match self.rtt_mode {
            0 => None,
            1 => Some(self.rtt_base),
            2 => Some(self.rtt_base * 1.4),
            3 => Some(self.rtt_base * 1.6),
            4 => Some(self.rtt_base * 2.1),
            5 => Some(self.rtt_base * if k % 6 < 3 { 2.3 } else { 1.2 }), // oscillation around 2.0x -> drain re-entry
            6 => Some(self.rtt_base * (1.0 + rng.f64())),
            7 => Some(self.rtt_base * 3.0),
            _ => Some(self.rtt_base * (0.9 + 0.2 * rng.f64())),
        };
        let o = match self.bps_mode {
            0 => 0.0,
            1 => self.bps,
            2 => {
                if rng.chance(1, 10) { self.bps * 100.0 } else { self.bps }
            }
            3 => target as f64 * 0.9, // falling with the target
            4 => target as f64 * 0.35,
            5 => target as f64 * 2.0,
            _ => self.bps * (0.5 + rng.f64()),
        };
        let sent = (o / 8.0 / 1316.0).max(0.0) as u64 + rng.below(3);
        let lost = match self.loss_mode {
            0 | 1 => 0,
            2 => sent * 4 / 1000,
            3 => (sent * 6 / 1000).max(rng.below(2)),
            4 => sent * 2 / 100 + 1,
            5 => sent * 60 / 100 + 1,
            6 => sent + 1,
            7 => {
                // loss that responds to the back-off: proportional to load above 50% of target
                if o > 0.5 * target as f64 { sent / 20 + 1 } else { 0 }
            }
            _ => sent * 70 / 100 + 2,
        };
        (rtt, o.min(1e12) as u64, sent, lost)
    }
}

fn dt_mix(rng: &mut Rng) -> u64 {
    match rng.below(20) {
        0 => 1,
        1 => 50,
        2 => 250,
        3 => 499,
        4 => 2000,
        5 => 4001,
        6 => 30_000,
        7 => 1999,
        _ => 1000 + rng.below(100),
    }
}

pub fn run_bare(rng: &mut Rng, rep: &mut Report) {
    let mut cc = LinkCongestionState::default();
    let mut mon = Mon::new();
    let mut g = Gen::new(rng);
    let mut now = 1_000_000 + rng.below(1_000_000);
    let n = 200 + rng.below(3800);
    let mut bytes: u64 = rng.below(1 << 40);
    let mut naks: i32 = rng.below(1000) as i32;
    let mut rtt_fed = false;
    let mut sample: Vec<String> = Vec::new();
    for k in 0..n {
        now += dt_mix(rng);
        let (rtt, o, sent, lost) = g.next(rng, cc.target_bps, k);
        if let Some(r) = rtt {
            // occasionally an invalid sample: must be ignored
            let r = if rng.chance(1, 200) { *rng.pick(&[0.0, -5.0, f64::NAN, f64::INFINITY]) } else { r };
            cc.record_rtt(r, now);
            if r.is_finite() && r > 0.0 {
                rtt_fed = true;
            }
        }
        if rng.chance(1, 300) {
            // counters reset after a reconnect
            bytes = 0;
            naks = 0;
            rep.count("counter.reset_observed");
        }
        bytes = bytes.saturating_add(sent * 1316);
        naks = naks.saturating_add(lost.min(1_000_000) as i32);
        cc.observe_traffic(bytes, naks, now);
        cc.tick(o, now);
        let s = cc.snapshot();
        if sample.len() < 30 {
            sample.push(format!("rtt={rtt:?} o={o} sent={sent} lost={lost} -> {:?} {}", s.state, s.target_bps));
        }
        mon.check(&s, o, now, rtt_fed, rep, "bare");
    }
    mon.finish(rep);
    if rep.wants_sample() && mon.visited_cut {
        rep.sample(serde_json::json!({"lane": "bare LinkCongestionState", "ticks": n, "first_ticks": sample}));
    }
}

fn mk_conn(id: u64, now: u64) -> SrtlaConnection {
    let mut c = SrtlaConnection::new_registering(id, format!("L{id}"), std::net::IpAddr::V4(std::net::Ipv4Addr::new(127, 0, 0, 10)), now);
    c.clear_pre_registration_state(now);
    c.connected = true;
    c.last_received = Some(now);
    c.reconnection.connection_established_ms = now;
    c
}

pub fn run_controller(rng: &mut Rng, rep: &mut Report) {
    let mut ctl = LinkCcController::new();
    let mut now = 2_000_000 + rng.below(1_000_000);
    let n_ids = 2 + rng.usize_below(3);
    let mut conns: Vec<SrtlaConnection> = (0..n_ids).map(|i| mk_conn(500 + i as u64, now)).collect();
    let mut parked: Vec<(u64, SrtlaConnection)> = Vec::new();
    let mut mons: HashMap<u64, Mon> = HashMap::new();
    let mut gens: HashMap<u64, Gen> = HashMap::new();
    let mut rtt_fed: HashMap<u64, bool> = HashMap::new();
    let mut seq = 1;
    let ticks = 200 + rng.below(1500);
    for k in 0..ticks {
        now += dt_mix(rng);
        // links vanish and return (reload / GC)
        if rng.chance(1, 120) && conns.len() > 1 {
            let i = rng.usize_below(conns.len());
            parked.push((k, conns.remove(i)));
        }
        if rng.chance(1, 400) && !conns.is_empty() {
            // every uplink vanishes at the same tick (reload replacing the whole list, all links torn down):
            // the controller then ticks over an EMPTY list for a while
            for c in conns.drain(..) {
                parked.push((k, c));
            }
            rep.count("controller.all_links_vanished");
        }
        if conns.is_empty() {
            rep.count("controller.empty_ticks");
        }
        if rng.chance(1, if conns.is_empty() { 6 } else { 100 }) && parked.first().is_some_and(|p| p.0 < k) {
            // it was absent from at least one tick_all call, so the controller garbage-collected it
            let (_, old) = parked.remove(0);
            // half of the time the same id comes back as a brand-new connection object (re-added address,
            // reconnect): no RTT sample yet, so its target must sit at the floor again
            let c = if rng.chance(1, 2) {
                rep.count("controller.returned_as_fresh_connection");
                mk_conn(old.conn_id, now)
            } else {
                old
            };
            // the controller forgot it: the monitor starts afresh as well
            mons.remove(&c.conn_id);
            rtt_fed.remove(&c.conn_id);
            gens.remove(&c.conn_id);
            rep.count("controller.gc_events");
            conns.push(c);
        }
        for c in conns.iter_mut() {
            let g = gens.entry(c.conn_id).or_insert_with(|| Gen::new(rng));
            let (rtt, o, sent, lost) = g.next(rng, c.cc_target_bps.max(FLOOR), k);
            if let Some(r) = rtt {
                c.rtt.update_estimate(r as u64, now);
            }
            // real accounting: bytes via the queue path, NAKs via the real handler
            c.bitrate.update_on_send(sent * 1316);
            c.bitrate.current_bitrate_bps = o as f64;
            for _ in 0..lost.min(40) {
                seq += 1;
                c.register_packet(seq, now);
                c.handle_nak(seq, now);
            }
            if rng.chance(1, 250) {
                c.reset_for_reconnect(now);
                c.clear_pre_registration_state(now);
                c.connected = true;
                c.last_received = Some(now);
                rep.count("counter.reset_observed");
            }
        }
        let snaps = ctl.tick_all(&conns, now);
        if snaps.len() != conns.len() {
            rep.violation("C16.controller.snapshot-set", format!("t={now}: {} snapshots for {} links", snaps.len(), conns.len()));
        }
        for c in conns.iter_mut() {
            let Some(s) = snaps.get(&c.conn_id) else { continue };
            rep.count("controller.ticks");
            let fed = rtt_fed.entry(c.conn_id).or_insert(false);
            if c.get_smooth_rtt_ms() > 0.0 {
                *fed = true;
            }
            let o = c.bitrate.current_bitrate_bps.max(0.0) as u64;
            mons.entry(c.conn_id).or_insert_with(Mon::new).check(s, o, now, *fed, rep, "controller");
            c.cc_target_bps = s.target_bps;
        }
    }
    for m in mons.values() {
        m.finish(rep);
    }
}

pub fn run(cfg: &RunCfg) -> Report {
    let cases = cfg.cases(20_000, 2_000_000);
    let mut rep = run_cases(cfg, 0, cases, Duration::from_secs(3600), |_c, rng, rep| run_bare(rng, rep));
    let c2 = cfg.cases(6_000, 600_000);
    rep.merge(run_cases(cfg, 1, c2, Duration::from_secs(3600), |_c, rng, rep| run_controller(rng, rep)));
    rep
}
