//! C01 — uplink path forwards every SRT datagram intact, once, in per-link order.
//! E1 shell simulation with the delivery monitor (sim/monitors.rs::DeliveryMon).

use std::time::Duration;

use srtla_core::config_snapshot::ConfigSnapshot;
use srtla_core::mode::SchedulingMode;

use crate::report::{PropSpec, Report, RunCfg};
use crate::runner::run_cases;
use crate::sim::monitors::DeliveryMon;
use crate::sim::stream::{Faults, Monitor, StreamOpts, run_stream};

pub const SPEC: PropSpec = PropSpec {
    id: "C01",
    level: "exploration",
    rule: "seeded E1 runs: 1-4 uplinks created by the production create_connections_from_ips on 127.0.0.10+i, session established through the real handshake against a sim receiver, then 4000-8000 ticks in which the four real arms (client datagram via the real recv_from + handle_srt_packet, uplink datagram via handle_uplink_packet, flush_all_batches, handle_housekeeping + classifier + link CC) fire in a PRNG-chosen order under a virtual clock (steps 0..30 ms, occasional jumps across the 1 s / 4 s / 5 s / timeout / 30 s deadlines), packet rates 100 kbit/s..20 Mbit/s (all three batch regimes), bursts up to 200, data (unique 64-bit id, arbitrary sequence numbers, retransmit flag, 13..1500 B) and control datagrams, sim-receiver feedback (SRTLA ACKs, cumulative ACKs, NAKs from modelled loss, keepalive echoes) with delays, and fault plans: black-holed and return-less links, socket send errors (shutdown(Write) -> EPIPE), duplicate REG3, REG_ERR, critical windows. Every frame read from the receiver-side socket is matched byte-for-byte to the injected datagram with the same unique id; the log checker enforces intact / exactly one unique copy / duplicates only on gated links and at most 1 per 100 routed data packets / per-link order / queue conservation (routed = arrived + queued + permitted loss) / flush leaves no queue / threshold rule. Non-trivial = arm-order 4-grams of runs that carried data; distinct = distinct 6-grams of (arm kind x batch regime x some-link-gated x some-link-down) observed. E6 live lane (12 sessions quick / 96 thorough): the PRODUCTION run_sender_with_config (real tokio::select! loop, reader tasks with recvmmsg, instant-ACK forwarder, timers, SIGHUP stream, control socket) runs in a real process (vlive) on loopback sockets and the real clock; the harness plays the SRT client, the SRTLA receiver model, path faults, receiver restarts, SIGHUP reloads and hostile return traffic, observes every datagram on both sides with kernel receive timestamps and uses the sender's own stats pushes (one per housekeeping tick) as its logical clock. Live oracles for this property: every datagram reaching the receiver side is byte-identical to a datagram the client sent; per uplink socket arrival order = client order; extra copies only across distinct uplinks of which all but one show a stall-gate engagement / silence pull in the sender's stats, at most 1 per 100 routed; at the end every datagram sent while an uplink was connected has arrived, except at most 32 per observed uplink teardown / removal / REG3 (judged only if the kernel's UDP drop counters did not move).",
    assumptions: &[
        "loopback never reorders or drops (an increase of the host's UDP RcvbufErrors counter during the run makes the verdict inconclusive)",
        "short sendmmsg results cannot be provoked on loopback UDP; a quarter of the cases therefore run every uplink over an AF_UNIX datagram socket pair with the kernel-minimum send buffer inside the real BatchUdpSocket (sendmmsg accepts ~2 datagrams per call, a drainer task on the same runtime empties the peer), which drives the short-send loop of send_all_datagrams",
        "E1 re-states ~40 lines of select! glue (arm bodies are the real functions)",
        "a datagram that left a queue in an arm in which its link was observed to fail (send error armed), be torn down, reconnect or process REG3 counts as permitted loss",
    ],
    floors: &[
        ("sim.sessions_established", 32, 1000),
        ("c01.frames_matched", 200_000, 6_000_000),
        ("c01.unique_copy_delivered", 200_000, 6_000_000),
        ("c01.flush.threshold.low_activity", 50, 1_000),
        ("c01.flush.threshold.normal", 500, 10_000),
        ("c01.flush.threshold.high_load", 200, 5_000),
        ("c01.flush.timer.multi_link", 500, 10_000),
        ("c01.duplicate_probe_routed", 20, 500),
        ("c01.loss.exempt.send_failure", 5, 100),
        ("c01.loss.exempt.teardown_or_reconnect", 1, 20),
        ("c01.cases_with_two_links_carrying_data", 20, 600),
        ("fault.black_hole", 50, 1_500),
        ("fault.socket_send_error_armed", 20, 600),
        ("sim.short_send_sessions", 6, 180),
        ("c01.collapsed_window_cases", 2, 120),
        ("c01.arms_with_every_usable_link_at_score_zero", 1_000, 30_000),
        ("c01.short_send.flushes_over_4_datagrams", 200, 6_000),
        ("live.sessions.timing_reliable", 6, 48),
        ("live.C01.completeness_checked", 4, 40),
        ("live.client.datagrams_delivered", 20000, 200000),
    ],
};

pub fn run_case(rng: &mut crate::prng::Rng, rep: &mut Report) {
    let timeout = *rng.pick(&[1000u64, 2500, 5000, 5000, 15_000]);
    let sc = ConfigSnapshot {
        mode: if rng.chance(1, 2) { SchedulingMode::Classic } else { SchedulingMode::Enhanced },
        quality_enabled: rng.chance(2, 3),
        stall_deselect: rng.chance(5, 6),
        stall_min_in_flight: *rng.pick(&[1, 4, 32, 32]),
        stall_ack_stale_ms: *rng.pick(&[500, 1000, 3000, 3000]),
        conn_timeout_ms: timeout,
    };
    let n_links = match rng.below(8) {
        0 => 1,
        1..=3 => 2,
        4..=5 => 3,
        _ => 4,
    };
    let faults = match rng.below(4) {
        0 => Faults::None,
        1 => Faults::Paths,
        _ => Faults::Heavy,
    };
    let mut opts = StreamOpts { n_links, cfg: sc, ticks: 4000 + rng.usize_below(4000), probing: rng.chance(1, 2), faults, retransmit_pct: rng.below(15), control_pct: 4, critical_windows: rng.chance(1, 2), big_jumps: rng.chance(1, 3), initial_windows: None, loss_permille: *rng.pick(&[0, 0, 5, 30]), stall_min_in_flight_small: true, echo_fuzz: false, rate_pct: 100, short_sends: rng.chance(1, 4) };
    // One case in six (added after seeded defect C01e): windows collapsed to the floor and a receiver that stays
    // alive (keepalive echoes) but acknowledges nothing, at three times the packet rate, so that the un-ACKed
    // backlog of every uplink reaches its window and every score floors to 0 - the uplinks are still usable and
    // every datagram must still be transmitted.
    if rng.chance(1, 6) {
        opts.initial_windows = Some((0..n_links).map(|_| 1000 + rng.below(40) as i32).collect());
        opts.loss_permille = 1000;
        opts.faults = Faults::None;
        opts.rate_pct = 300;
        opts.short_sends = false;
        rep.count("c01.collapsed_window_cases");
    }
    let want_sample = rep.wants_sample();
    let desc = format!("{opts:?}");
    let mut m = DeliveryMon::new(timeout);
    let mut mons: [&mut dyn Monitor; 1] = [&mut m];
    let ok = run_stream(opts, rng, &mut mons, rep);
    if ok && want_sample {
        rep.sample(serde_json::json!({"run": desc}));
    }
}


use crate::live::ReloadKind as K;
use crate::live::Scenario as S;
/// scenario mix of this property's live lane (E6)
#[allow(unused_imports)]
const LIVE_SCENARIOS: &[(S, u32)] = &[
            (S::Steady, 3),
            (S::HostileReturn, 1),
            (S::BlackHole, 2),
            (S::NoReturn, 2),
            (S::Reload(K::Remove), 1),
            (S::Reload(K::Replace), 1),
        ];

pub fn run(cfg: &RunCfg) -> Report {
    if crate::live::is_live_lane(cfg) {
        let mut rep = Report::new();
        crate::live::prop_lane(cfg, &mut rep, "C01", LIVE_SCENARIOS);
        return rep;
    }
    let before = crate::sim::udp_rcvbuf_errors();
    let cases = cfg.cases(64, 2000);
    let mut rep = run_cases(cfg, 0, cases, Duration::from_secs(3600), |_c, rng, rep| run_case(rng, rep));
    let after = crate::sim::udp_rcvbuf_errors();
    rep.notes.insert("udp_rcvbuf_errors_during_run".into(), serde_json::json!(after - before));
    if after != before && rep.violation_count > 0 {
        rep.inconclusive(format!("host UDP RcvbufErrors grew by {} during the run: delivery verdicts are not trustworthy", after - before));
        rep.violations.clear();
        rep.violation_count = 0;
    }
    // E6: the production event loop in a real process
    crate::live::prop_lane(cfg, &mut rep, "C01", LIVE_SCENARIOS);
    rep
}
