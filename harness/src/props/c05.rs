//! C05 — a NAK is charged once, and only to a link that carried the packet.
//!
//! Direct lane: seeded routing histories over 1-4 real connections and the real
//! SequenceTracker, every NAK applied one at a time through the production
//! `attribute_nak`, its per-link (nak_count, window, in-flight) deltas compared with
//! an independent ownership model. E1 lane: NAK frames in closed-loop shell runs
//! (sim/monitors.rs::NakMon).

use std::collections::BTreeSet;
use std::net::{IpAddr, Ipv4Addr};
use std::time::Duration;

use srtla_core::connection::SrtlaConnection;
use srtla_send::sender::SequenceTracker;
use srtla_send::sender::verif_hooks as vh;

use crate::prng::{Fnv, Rng};
use crate::report::{PropSpec, Report, RunCfg};
use crate::runner::run_cases;
use crate::sim::classic_ref::OwnerModel;

pub const SPEC: PropSpec = PropSpec {
    id: "C05",
    level: "exploration",
    rule: "direct lane: histories (60-400 ops) over 1-4 real connections + the real SequenceTracker: unique routings (queue_data_packet + tracker insert, as forward_via_connection does), probe copies (no tracker insert), retransmissions routed to another link, colliding sequence numbers seq +- 16384*k, flushes, cumulative / SRTLA ACKs, clock advances incl. 4999/5000/5001 ms after a routing, link removal (tracker purge), windows at 1000/1050/2000; every NAK goes alone through the production attribute_nak and the (nak_count, window, in_flight) triple of every link is compared before/after with an independent ownership model (slot = seq mod 16384, newest unique routing wins, valid <= 5000 ms, purged on removal): at most one link changes, it held the sequence, exactly +1 / max(w-100,1000) / -1; while the owner is remembered only the owner may be charged (or nobody if it no longer holds it); unknown and repeated NAKs change nothing. E1 lane: the same deltas around NAK frames (lists and ranges through the real parse_srt_nak) in closed-loop shell runs. Non-trivial = NAK of a sequence held by some link; distinct = distinct (tracker outcome, holders bitmask, charged link, window bucket) tuples x op 3-grams.",
    assumptions: &[
        "when no owner is remembered the property allows any single holder (or nobody) to be charged; the monitor accepts whichever holder the implementation picked",
        "the direct lane replays the two statements of forward_via_connection that matter here (queue + tracker insert); the E1 lane drives the real function",
    ],
    floors: &[
        ("nak.total", 50_000, 2_000_000),
        ("nak.tracker_hit_owner_holds", 5_000, 200_000),
        ("nak.tracker_hit_owner_no_longer_holds", 500, 20_000),
        ("nak.tracker_hit_owner_no_longer_holds_other_holds", 200, 8_000),
        ("nak.tracker_miss_fallback_charged", 500, 20_000),
        ("nak.displaced_slot", 500, 20_000),
        ("nak.expired_entry", 500, 20_000),
        ("nak.age_exactly_5000", 50, 2_000),
        ("nak.removed_owner", 200, 8_000),
        ("nak.two_holders", 500, 20_000),
        ("nak.unknown", 5_000, 200_000),
        ("nak.repeated", 2_000, 80_000),
        ("nak.at_window_floor", 500, 20_000),
        ("nak.before_flush_tracked_not_outstanding", 500, 20_000),
        ("e1.nak_frames", 200, 6_000),
        ("e1.nak_entries_charged", 500, 15_000),
    ],
};

fn mk_conn(id: u64, now: u64) -> SrtlaConnection {
    let mut c = SrtlaConnection::new_registering(id, format!("L{id}"), IpAddr::V4(Ipv4Addr::new(127, 0, 0, 10)), now);
    c.clear_pre_registration_state(now);
    c.connected = true;
    c.last_received = Some(now);
    c.reconnection.connection_established_ms = now;
    c
}

struct H {
    conns: Vec<SrtlaConnection>,
    held: Vec<BTreeSet<i32>>,
    queued: Vec<Vec<u32>>,
    tracker: SequenceTracker,
    owners: OwnerModel,
    now: u64,
}

fn flush(h: &mut H, i: usize) {
    let now = h.now;
    let _ = h.conns[i].take_batch(now);
    for s in h.queued[i].drain(..) {
        h.held[i].insert(s as i32);
    }
}

pub fn run_history(rng: &mut Rng, rep: &mut Report) {
    let n0 = 1 + rng.usize_below(4);
    let t0 = 3_000_000 + rng.below(1_000_000);
    let mut h = H { conns: (0..n0).map(|i| mk_conn(100 + i as u64, t0)).collect(), held: vec![BTreeSet::new(); n0], queued: vec![Vec::new(); n0], tracker: SequenceTracker::new(), owners: OwnerModel::new(), now: t0 };
    let mut next_id = 100 + n0 as u64;
    let base: u32 = rng.below(1 << 30) as u32 + 40_000;
    let mut next_seq = base;
    let mut routed: Vec<(u32, u64)> = Vec::new(); // (seq, routing time) of unique routings
    let mut naked: Vec<u32> = Vec::new();
    let mut owner_removed: std::collections::HashSet<u32> = Default::default();
    let mut kinds: Vec<u64> = Vec::new();
    let mut sample: Vec<String> = Vec::new();
    let want_sample = rep.wants_sample();
    let n_ops = 60 + rng.usize_below(341);
    for _ in 0..n_ops {
        let n = h.conns.len();
        if n == 0 {
            break;
        }
        let op = rng.weighted(&[30, 6, 6, 4, 10, 6, 4, 2, 32, 3]);
        match op {
            0 => {
                // unique routing of a fresh sequence number
                let l = rng.usize_below(n);
                let s = next_seq;
                next_seq += 1 + rng.below(3) as u32;
                let pkt = [0u8; 40];
                let need = h.conns[l].queue_data_packet(&pkt, Some(s), h.now);
                h.tracker.insert(s, h.conns[l].conn_id, h.now);
                h.owners.route(s, h.conns[l].conn_id, h.now);
                h.queued[l].push(s);
                routed.push((s, h.now));
                if need || rng.chance(2, 3) {
                    flush(&mut h, l);
                }
                if want_sample && sample.len() < 50 {
                    sample.push(format!("route(l{l},{})", s as i64 - base as i64));
                }
            }
            1 => {
                // probe copy of a recent sequence on another link (not tracked)
                if let Some((s, _)) = routed.last().copied() {
                    let l = rng.usize_below(n);
                    let pkt = [0u8; 40];
                    let need = h.conns[l].queue_data_packet(&pkt, Some(s), h.now);
                    h.queued[l].push(s);
                    if need || rng.chance(2, 3) {
                        flush(&mut h, l);
                    }
                    if want_sample && sample.len() < 50 {
                        sample.push(format!("probe(l{l},{})", s as i64 - base as i64));
                    }
                }
            }
            2 => {
                // retransmission of an earlier sequence, routed as a unique copy (maybe elsewhere)
                if !routed.is_empty() {
                    let (s, _) = routed[rng.usize_below(routed.len())];
                    let l = rng.usize_below(n);
                    let pkt = [0u8; 40];
                    let need = h.conns[l].queue_data_packet(&pkt, Some(s), h.now);
                    h.tracker.insert(s, h.conns[l].conn_id, h.now);
                    h.owners.route(s, h.conns[l].conn_id, h.now);
                    h.queued[l].push(s);
                    routed.push((s, h.now));
                    if need || rng.chance(2, 3) {
                        flush(&mut h, l);
                    }
                    if want_sample && sample.len() < 50 {
                        sample.push(format!("reroute(l{l},{})", s as i64 - base as i64));
                    }
                }
            }
            3 => {
                // colliding sequence number in the same tracker slot
                if !routed.is_empty() {
                    let (s0, _) = routed[rng.usize_below(routed.len())];
                    let k = 1 + rng.below(2) as u32;
                    let s = if rng.chance(1, 2) && s0 > 16384 * k { s0 - 16384 * k } else { s0 + 16384 * k };
                    let l = rng.usize_below(n);
                    let pkt = [0u8; 40];
                    let need = h.conns[l].queue_data_packet(&pkt, Some(s), h.now);
                    h.tracker.insert(s, h.conns[l].conn_id, h.now);
                    h.owners.route(s, h.conns[l].conn_id, h.now);
                    h.queued[l].push(s);
                    routed.push((s, h.now));
                    if need || rng.chance(2, 3) {
                        flush(&mut h, l);
                    }
                    if want_sample && sample.len() < 50 {
                        sample.push(format!("collide(l{l},{}+-16384k)", s0 as i64 - base as i64));
                    }
                }
            }
            4 => {
                // clock
                let dt = match rng.below(8) {
                    0 => {
                        // land exactly around the 5 s age of some routing
                        if let Some((_, t)) = routed.get(rng.usize_below(routed.len().max(1))).copied() {
                            let target = t + *rng.pick(&[4999u64, 5000, 5001]);
                            target.saturating_sub(h.now)
                        } else {
                            5000
                        }
                    }
                    1 => 5001,
                    2 => 2000,
                    _ => rng.below(300),
                };
                h.now += dt;
            }
            5 => {
                for i in 0..n {
                    if !h.queued[i].is_empty() {
                        flush(&mut h, i);
                    }
                }
            }
            6 => {
                // SRTLA ACK of a held sequence (owner then no longer holds it)
                let l = rng.usize_below(n);
                if let Some(s) = h.held[l].iter().nth(rng.usize_below(h.held[l].len().max(1))).copied() {
                    h.conns[l].handle_srtla_ack_specific(s, rng.chance(1, 2), h.now);
                    h.held[l].remove(&s);
                }
            }
            7 => {
                // link removal, as apply_connection_changes does it
                if n > 1 {
                    let l = rng.usize_below(n);
                    let id = h.conns[l].conn_id;
                    h.tracker.remove_connection(id);
                    owner_removed.extend(h.owners.seqs_of(id));
                    h.owners.remove_link(id);
                    h.conns.remove(l);
                    h.held.remove(l);
                    h.queued.remove(l);
                    rep.count("link.removed");
                    if rng.chance(1, 2) {
                        let c = mk_conn(next_id, h.now);
                        next_id += 1;
                        h.conns.push(c);
                        h.held.push(BTreeSet::new());
                        h.queued.push(Vec::new());
                    }
                }
            }
            8 => {
                // ---- the NAK under test -------------------------------------------------
                let n = h.conns.len();
                let s: u32 = match rng.below(10) {
                    0..=4 if !routed.is_empty() => routed[rng.usize_below(routed.len())].0,
                    5 if !naked.is_empty() => naked[rng.usize_below(naked.len())],
                    6 => {
                        let l = rng.usize_below(n);
                        h.held[l].iter().next().map(|x| *x as u32).unwrap_or(next_seq + 77)
                    }
                    7 if !routed.is_empty() => routed[routed.len() - 1].0,
                    _ => next_seq + 100 + rng.below(50_000) as u32,
                };
                if rng.chance(1, 6) {
                    let l = rng.usize_below(n);
                    h.conns[l].window = *rng.pick(&[1000, 1050, 2000, 2100]);
                }
                let holders: Vec<usize> = (0..n).filter(|i| h.held[*i].contains(&(s as i32))).collect();
                let queued_somewhere = (0..n).any(|i| h.queued[i].contains(&s));
                let owner_id = h.owners.remembered(s, h.now);
                let owner_idx = owner_id.and_then(|id| h.conns.iter().position(|c| c.conn_id == id));
                let before: Vec<(i32, i32, i32)> = h.conns.iter().map(|c| (c.total_nak_count(), c.window, c.in_flight_packets)).collect();
                let ret = vh::attribute_nak(&mut h.conns, &h.tracker, s, h.now);
                rep.eval();
                rep.count("nak.total");
                let after: Vec<(i32, i32, i32)> = h.conns.iter().map(|c| (c.total_nak_count(), c.window, c.in_flight_packets)).collect();
                let changed: Vec<usize> = (0..n).filter(|i| before[*i] != after[*i]).collect();
                // coverage classes
                let ever_routed = routed.iter().rev().find(|(x, _)| *x == s).copied();
                if naked.contains(&s) {
                    rep.count("nak.repeated");
                }
                if holders.len() >= 2 {
                    rep.count("nak.two_holders");
                }
                if holders.is_empty() && !queued_somewhere && ever_routed.is_none() {
                    rep.count("nak.unknown");
                }
                if holders.is_empty() && queued_somewhere && owner_idx.is_some() {
                    rep.count("nak.before_flush_tracked_not_outstanding");
                }
                if let Some((_, t)) = ever_routed {
                    let age = h.now - t;
                    if age > 5000 && owner_id.is_none() {
                        rep.count("nak.expired_entry");
                    }
                    if age == 5000 {
                        rep.count("nak.age_exactly_5000");
                    }
                    if age <= 5000 && owner_id.is_none() {
                        rep.count("nak.displaced_slot");
                    }
                }
                if owner_id.is_some() && owner_idx.is_none() {
                    // cannot happen: removal purges the model as well
                    rep.count("nak.owner_id_without_link");
                }
                if owner_id.is_none() && owner_removed.contains(&s) {
                    rep.count("nak.removed_owner");
                }
                // ---- oracle --------------------------------------------------------------------
                let mut sig = Fnv::new();
                if changed.len() > 1 {
                    rep.violation("C05.charged-more-than-one-link", format!("NAK {s}: links {changed:?} changed; before {before:?} after {after:?}"));
                }
                if let Some(&l) = changed.first() {
                    let (b, a) = (before[l], after[l]);
                    if !holders.contains(&l) {
                        rep.violation("C05.charged-link-did-not-hold-it", format!("NAK {s}: link {l} was charged {b:?} -> {a:?} but did not have the sequence outstanding (holders {holders:?})"));
                    }
                    let exp = (b.0 + 1, (b.1 - 100).max(1000), b.2 - 1);
                    if a != exp {
                        rep.violation("C05.charge-not-exactly-one", format!("NAK {s}: link {l} (nak_count, window, in_flight) {b:?} -> {a:?}, expected {exp:?}"));
                    }
                    if b.1 <= 1099 {
                        rep.count("nak.at_window_floor");
                    }
                    if let Some(o) = owner_idx
                        && o != l
                    {
                        rep.violation("C05.charged-other-than-remembered-owner", format!("NAK {s}: the unique copy was routed on link {o} {} ms ago (still remembered) but link {l} was charged; holders {holders:?}", h.now - ever_routed.map(|x| x.1).unwrap_or(h.now)));
                    }
                    if ret != Some(l) {
                        rep.violation("C05.return-value", format!("NAK {s}: attribute_nak returned {ret:?} but link {l} changed"));
                    }
                    h.held[l].remove(&(s as i32));
                    sig.u64(l as u64 + 1);
                } else {
                    if ret.is_some() {
                        rep.violation("C05.return-value", format!("NAK {s}: attribute_nak returned {ret:?} but no link changed"));
                    }
                    if let Some(o) = owner_idx
                        && holders.contains(&o)
                    {
                        rep.violation("C05.owner-holds-but-not-charged", format!("NAK {s}: remembered owner link {o} holds the sequence but nobody was charged"));
                    }
                    if owner_idx.is_none() && !holders.is_empty() {
                        // allowed by "at most one", but the documented fallback charges a holder
                        rep.count("nak.holders_but_nobody_charged");
                    }
                }
                match (owner_idx, changed.first()) {
                    (Some(o), Some(l)) if o == *l => rep.count("nak.tracker_hit_owner_holds"),
                    (Some(o), None) => {
                        rep.count("nak.tracker_hit_owner_no_longer_holds");
                        if holders.iter().any(|x| *x != o) {
                            rep.count("nak.tracker_hit_owner_no_longer_holds_other_holds");
                        }
                    }
                    (None, Some(_)) => rep.count("nak.tracker_miss_fallback_charged"),
                    _ => {}
                }
                sig.u64(owner_idx.map(|x| x as u64 + 1).unwrap_or(0));
                sig.u64(holders.iter().fold(0u64, |a, b| a | 1 << b));
                sig.u64((before.first().map(|b| b.1).unwrap_or(0) / 1000) as u64);
                for k in kinds.iter().rev().take(2) {
                    sig.u64(*k);
                }
                if !holders.is_empty() {
                    rep.distinct(sig.finish());
                }
                rep.t(|| format!("t={} NAK {s} owner={owner_idx:?} holders={holders:?} -> ret {ret:?}; before {before:?} after {after:?}", h.now));
                naked.push(s);
                if want_sample && sample.len() < 50 {
                    sample.push(format!("NAK({}) -> {ret:?}", s as i64 - base as i64));
                }
            }
            _ => {
                // cumulative ACK
                let a = next_seq.saturating_sub(1 + rng.below(30) as u32);
                for (i, c) in h.conns.iter_mut().enumerate() {
                    c.handle_srt_ack(a as i32, h.now);
                    h.held[i].retain(|s| *s > a as i32);
                }
            }
        }
        kinds.push(op as u64);
        // model sanity (C02 is the authority; here only to keep the holders sets honest)
        for (i, c) in h.conns.iter().enumerate() {
            if c.in_flight_packets as usize != h.held[i].len() {
                h.held[i] = c.packet_log.keys().copied().collect();
                rep.count("model.resynced_from_packet_log");
            }
        }
    }
    if want_sample && rep.wants_sample() {
        rep.sample(serde_json::json!({"links": n0, "ops_relative_to_base_seq": sample}));
    }
}

pub fn run(cfg: &RunCfg) -> Report {
    let cases = cfg.cases(30_000, 2_000_000);
    let mut rep = run_cases(cfg, 0, cases, Duration::from_secs(3600), |_c, rng, rep| run_history(rng, rep));
    if cfg.lane.as_deref() != Some("miri") {
        rep.merge(crate::sim::c05_shell::run(cfg));
    }
    rep
}
