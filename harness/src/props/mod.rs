pub mod c02;
pub mod c03;
pub mod c11;
pub mod c12;
pub mod c13;
pub mod c15;

use crate::report::{PropSpec, Report, RunCfg};

pub fn lookup(id: &str) -> Option<(&'static PropSpec, fn(&RunCfg) -> Report)> {
    Some(match id {
        "C02" => (&c02::SPEC, c02::run as fn(&RunCfg) -> Report),
        "C03" => (&c03::SPEC, c03::run as fn(&RunCfg) -> Report),
        "C11" => (&c11::SPEC, c11::run as fn(&RunCfg) -> Report),
        "C12" => (&c12::SPEC, c12::run as fn(&RunCfg) -> Report),
        "C13" => (&c13::SPEC, c13::run as fn(&RunCfg) -> Report),
        "C15" => (&c15::SPEC, c15::run as fn(&RunCfg) -> Report),
        _ => return None,
    })
}
