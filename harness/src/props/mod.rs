pub mod c02;
pub mod c15;

use crate::report::{PropSpec, Report, RunCfg};

pub fn lookup(id: &str) -> Option<(&'static PropSpec, fn(&RunCfg) -> Report)> {
    Some(match id {
        "C02" => (&c02::SPEC, c02::run as fn(&RunCfg) -> Report),
        "C15" => (&c15::SPEC, c15::run as fn(&RunCfg) -> Report),
        _ => return None,
    })
}
