pub mod c01;
pub mod c02;
pub mod c03;
pub mod c04;
pub mod c05;
pub mod c06;
pub mod c07;
pub mod c08;
pub mod c09;
pub mod c10;
pub mod c11;
pub mod c12;
pub mod c13;
pub mod c14;
pub mod c15;
pub mod c16;
pub mod c17;
pub mod c18;
pub mod c19;
pub mod c20;

use crate::report::{PropSpec, Report, RunCfg};

pub fn lookup(id: &str) -> Option<(&'static PropSpec, fn(&RunCfg) -> Report)> {
    Some(match id {
        "C01" => (&c01::SPEC, c01::run as fn(&RunCfg) -> Report),
        "C02" => (&c02::SPEC, c02::run as fn(&RunCfg) -> Report),
        "C03" => (&c03::SPEC, c03::run as fn(&RunCfg) -> Report),
        "C04" => (&c04::SPEC, c04::run as fn(&RunCfg) -> Report),
        "C05" => (&c05::SPEC, c05::run as fn(&RunCfg) -> Report),
        "C06" => (&c06::SPEC, c06::run as fn(&RunCfg) -> Report),
        "C07" => (&c07::SPEC, c07::run as fn(&RunCfg) -> Report),
        "C08" => (&c08::SPEC, c08::run as fn(&RunCfg) -> Report),
        "C09" => (&c09::SPEC, c09::run as fn(&RunCfg) -> Report),
        "C10" => (&c10::SPEC, c10::run as fn(&RunCfg) -> Report),
        "C11" => (&c11::SPEC, c11::run as fn(&RunCfg) -> Report),
        "C12" => (&c12::SPEC, c12::run as fn(&RunCfg) -> Report),
        "C13" => (&c13::SPEC, c13::run as fn(&RunCfg) -> Report),
        "C14" => (&c14::SPEC, c14::run as fn(&RunCfg) -> Report),
        "C15" => (&c15::SPEC, c15::run as fn(&RunCfg) -> Report),
        "C16" => (&c16::SPEC, c16::run as fn(&RunCfg) -> Report),
        "C17" => (&c17::SPEC, c17::run as fn(&RunCfg) -> Report),
        "C18" => (&c18::SPEC, c18::run as fn(&RunCfg) -> Report),
        "C19" => (&c19::SPEC, c19::run as fn(&RunCfg) -> Report),
        "C20" => (&c20::SPEC, c20::run as fn(&RunCfg) -> Report),
        _ => return None,
    })
}
