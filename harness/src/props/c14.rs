//! C14 — keepalives flow on every live uplink and RTT comes only from echoes.
//! E1 shell simulation with the keepalive monitor (sim/monitors.rs::KeepaliveMon).

use std::time::Duration;

use srtla_core::config_snapshot::ConfigSnapshot;
use srtla_core::mode::SchedulingMode;

use crate::report::{PropSpec, Report, RunCfg};
use crate::runner::run_cases;
use crate::sim::monitors::KeepaliveMon;
use crate::sim::stream::{Faults, Monitor, StreamOpts, run_stream};

pub const SPEC: PropSpec = PropSpec {
    id: "C14",
    level: "exploration",
    rule: "seeded E1 runs (1-4 uplinks, real handshake, real arms under a virtual clock; housekeeping period drawn from 1000..1100 ms, sometimes delayed) with light data traffic, sim-receiver keepalive echoes with 0..150 ms delay, and crafted echoes injected on random links: timely, late (> 10 s), exactly 10 s, duplicated, truncated to 2..9 bytes, future / same-ms / zero timestamps, 10-byte and arbitrary-tail frames, high->low RTT steps; black-holed links, socket errors and re-registrations in between. Every 0x9000 frame read from the receiver-side socket is decoded by the reference decoder (length 38, timestamp = virtual send time, magic / version, conn id, window / in-flight / NAK count / rate equal to the link's state at arm entry); cadence: a link that is connected and heard from never passes two consecutive housekeeping arms without a keepalive; sampling: the RTT state changes in an echo arm only if - by the monitor's own record - a keepalive went out on that link since its last echo / reset, and iff a probe was outstanding, the frame has >= 10 bytes and 0 < now - ts <= 10 s; smoothed RTT finite and >= 0 after every arm. Non-trivial = echo arms; distinct = distinct 6-grams of (arm kind x batch regime x some-link-gated x some-link-down) observed. E6 live lane (12 sessions quick / 96 thorough): the PRODUCTION run_sender_with_config (real tokio::select! loop, reader tasks with recvmmsg, instant-ACK forwarder, timers, SIGHUP stream, control socket) runs in a real process (vlive) on loopback sockets and the real clock; the harness plays the SRT client, the SRTLA receiver model, path faults, receiver restarts, SIGHUP reloads and hostile return traffic, observes every datagram on both sides with kernel receive timestamps and uses the sender's own stats pushes (one per housekeeping tick) as its logical clock. Live oracles for this property: every keepalive on the wire is a 38-byte extended frame with window in [1000, 60000] and in-flight >= 0; keepalive timestamps never go back per uplink; on connected, answered uplinks at most 3 stats pushes are observed between consecutive keepalives.",
    assumptions: &["housekeeping arms are at least 1000 ms of virtual time apart (tokio interval with Delay behaviour), possibly later", "the cadence rule is demanded only of links whose socket accepts sends: while an injected send error (EPIPE) is armed on a link its keepalives cannot reach the wire and the link is exempt until its socket is replaced"],
    floors: &[
        ("sim.sessions_established", 100, 3000),
        ("c14.keepalive_frames", 5_000, 150_000),
        ("c14.cadence.keepalive_in_housekeeping_arm", 5_000, 150_000),
        ("c14.echo.accepted", 500, 15_000),
        ("c14.echo.not_waiting", 500, 15_000),
        ("c14.echo.truncated", 500, 15_000),
        ("c14.echo.zero_ts", 100, 3_000),
        ("c14.echo.future_or_same_ms_ts", 100, 3_000),
        ("c14.echo.late_over_10s", 100, 3_000),
        ("c14.sharp_high_to_low_transition", 50, 1_500),
        ("c14.probe_cancelled_by_link_reset", 20, 600),
        ("live.C14.cadence_checked", 100, 800),
        ("live.rx.keepalive", 120, 1000),
    ],
};

pub fn run_case(rng: &mut crate::prng::Rng, rep: &mut Report) {
    let timeout = *rng.pick(&[5000u64, 5000, 15_000]);
    let sc = ConfigSnapshot { mode: if rng.chance(1, 2) { SchedulingMode::Classic } else { SchedulingMode::Enhanced }, conn_timeout_ms: timeout, ..ConfigSnapshot::default() };
    let opts = StreamOpts { n_links: 1 + rng.usize_below(4), cfg: sc, ticks: 12_000, probing: rng.chance(1, 2), faults: if rng.chance(1, 2) { Faults::Heavy } else { Faults::Paths }, retransmit_pct: 2, control_pct: 2, critical_windows: false, big_jumps: false, initial_windows: None, loss_permille: 5, stall_min_in_flight_small: false, echo_fuzz: true, rate_pct: 10, short_sends: false };
    let want_sample = rep.wants_sample();
    let desc = format!("{opts:?}");
    let mut m = KeepaliveMon::new(timeout);
    let mut mons: [&mut dyn Monitor; 1] = [&mut m];
    let ok = run_stream(opts, rng, &mut mons, rep);
    if ok && want_sample {
        rep.sample(serde_json::json!({"run": desc}));
    }
}


use crate::live::ReloadKind as K;
use crate::live::Scenario as S;
/// scenario mix of this property's live lane (E6)
#[allow(unused_imports)]
const LIVE_SCENARIOS: &[(S, u32)] = &[(S::Steady, 3), (S::HostileReturn, 1), (S::BlackHole, 1), (S::Reload(K::Add), 1)];

pub fn run(cfg: &RunCfg) -> Report {
    if crate::live::is_live_lane(cfg) {
        let mut rep = Report::new();
        crate::live::prop_lane(cfg, &mut rep, "C14", LIVE_SCENARIOS);
        return rep;
    }
    let cases = cfg.cases(160, 4000);
    let mut rep = run_cases(cfg, 0, cases, Duration::from_secs(3600), |_c, rng, rep| run_case(rng, rep));
    // E6: the production event loop in a real process (keepalive frames and cadence on the wire)
    crate::live::prop_lane(cfg, &mut rep, "C14", LIVE_SCENARIOS);
    rep
}
