//! C06 — congestion windows stay in range and move in the right direction.
//!
//! History monitor on one real connection per history: range invariant after every
//! op and a direction rule per op kind; fast-recovery flag edges.

use std::time::Duration;

use srtla_core::connection::{CongestionControl, SrtlaConnection};

use crate::prng::{Fnv, Rng};
use crate::report::{PropSpec, Report, RunCfg};
use crate::runner::run_cases;

pub const SPEC: PropSpec = PropSpec {
    id: "C06",
    level: "exploration",
    rule: "timed histories (100-1500 ops, both modes) on one real SrtlaConnection: earned SRTLA ACKs (register_packet then handle_srtla_ack_specific with real post-removal in-flight from 0 to 400), un-earned ACKs, global +1 ACKs (connected / heard or not), NAKs on held sequences (isolated, bursts of 2-40 within 1 s, at the floor), unknown NAKs, perform_window_recovery at spacings 1 ms..60 s with Kalman velocity driven negative / zero / positive by real RTT sample ramps, mark_for_recovery / reset_for_reconnect / REG3, plus direct calls of the public CongestionControl ACK entry points with in-flight in {0,1,window/1000+-1,10^6,i32::MAX/1000+-1,i32::MAX}; half of the histories start from a stamped window anywhere in [1000,60000]. After every op: 1000 <= window <= 60000; NAK => exactly max(w-100,1000); ACK / global / recovery => window does not decrease (global = min(w+1,60000) iff connected and heard); resets => 20000 (mark_for_recovery, reset_for_reconnect); fast-recovery false->true only in a NAK op ending at <= 2000, true->false only in an op ending at >= 12000 or a reset. Overflow checks are on (a panic is a violation). Non-trivial = history that reached the floor or the ceiling or toggled fast recovery; distinct = distinct (window bucket, fast-recovery flag, op kind) 3-grams.",
    assumptions: &[
        "time-based recovery is only ever invoked by the shell in enhanced mode; that decision itself (housekeeping) is observed in the E1 lane of this check",
        "in-flight counts beyond a few hundred are reached by calling the public congestion entry points directly with the count as argument",
    ],
    floors: &[
        ("ops", 2_000_000, 80_000_000),
        ("window.at_floor", 1_000, 40_000),
        ("window.at_ceiling", 1_000, 40_000),
        ("nak.at_floor", 1_000, 40_000),
        ("recovery.applied", 10_000, 400_000),
        ("recovery.capped_at_ceiling", 100, 4_000),
        ("recovery.velocity_halved", 1_000, 40_000),
        ("recovery.band.gt10s", 1_000, 40_000),
        ("recovery.band.7to10s", 300, 10_000),
        ("recovery.band.5to7s", 300, 10_000),
        ("recovery.band.lt5s", 300, 10_000),
        ("fast_recovery.entered", 1_000, 40_000),
        ("fast_recovery.left_at_12000_by_ack", 100, 4_000),
        ("fast_recovery.left_at_12000_by_recovery", 300, 10_000),
        ("fast_recovery.left_by_reset", 300, 10_000),
        ("fast_recovery.latched_with_window_near_ceiling", 500, 10_000),
        ("ack.earned_grew", 10_000, 400_000),
        ("ack.earned_not_grown", 10_000, 400_000),
        ("ack.global_applied", 10_000, 400_000),
        ("ack.global_not_applied", 1_000, 40_000),
        ("direct.extreme_inflight", 10_000, 400_000),
        ("reset.mark_for_recovery", 1_000, 40_000),
        ("reset.reset_for_reconnect", 1_000, 40_000),
        ("shell.classic_housekeeping_arms", 200, 5_000),
        ("shell.enhanced_housekeeping_arms", 200, 5_000),
    ],
};

const WMIN: i32 = 1000;
const WMAX: i32 = 60_000;
const WDEF: i32 = 20_000;

fn bucket(w: i32) -> u64 {
    match w {
        i32::MIN..=999 => 0,
        1000 => 1,
        1001..=2000 => 2,
        2001..=11_999 => 3,
        12_000..=19_999 => 4,
        20_000 => 5,
        20_001..=59_999 => 6,
        60_000 => 7,
        _ => 8,
    }
}

pub fn run_history(rng: &mut Rng, rep: &mut Report) {
    let classic = rng.chance(1, 2);
    let mut now = 5_000_000 + rng.below(1_000_000);
    let mut c = SrtlaConnection::new_registering(77, "L".into(), std::net::IpAddr::V4(std::net::Ipv4Addr::new(127, 0, 0, 10)), now);
    rep.eval();
    if c.window != WDEF {
        rep.violation("C06.initial-window", format!("new link starts with window {}", c.window));
    }
    c.clear_pre_registration_state(now);
    c.connected = true;
    c.last_received = Some(now);
    c.reconnection.connection_established_ms = now;
    if rng.chance(1, 2) {
        c.window = match rng.below(6) {
            0 => WMIN,
            1 => WMIN + rng.below(1200) as i32,
            2 => WMAX,
            3 => WMAX - rng.below(100) as i32,
            4 => 11_900 + rng.below(200) as i32,
            _ => WMIN + rng.below((WMAX - WMIN) as u64 + 1) as i32,
        };
    }
    let n_ops = 100 + rng.usize_below(1401);
    let mut seq: i32 = 100_000;
    let mut kinds: Vec<u64> = Vec::new();
    let mut interesting = false;
    // phase bias: which op kinds dominate for a while
    let mut phase = rng.below(6);
    let mut phase_left = 20 + rng.below(200);
    let mut rtt_ms: f64 = 50.0 + rng.below(200) as f64;
    let mut rtt_slope: f64 = 0.0;
    for _ in 0..n_ops {
        if phase_left == 0 {
            phase = rng.below(6);
            phase_left = 20 + rng.below(300);
            if c.congestion.fast_recovery_mode && rng.chance(1, 2) {
                // sustained, undisturbed growth so that fast recovery can be left at >= 12000
                phase = 6 + rng.below(2);
                phase_left = 150 + rng.below(300);
            }
            rtt_slope = *rng.pick(&[-5.0, 0.0, 0.0, 3.0, 10.0, 40.0]);
        }
        phase_left -= 1;
        if c.congestion.fast_recovery_mode && rng.chance(1, 40) {
            // reachable: classic-mode ACK growth (+29 per earned ACK) never clears the latch, so a link can climb
            // from <= 2000 to the ceiling with it still set (then a runtime set_mode enhanced enables recovery ticks)
            c.window = 59_850 + rng.below(150) as i32;
            rep.count("fast_recovery.latched_with_window_near_ceiling");
        }
        let w0 = c.window;
        let fr0 = c.congestion.fast_recovery_mode;
        let weights: [u32; 9] = match phase {
            0 => [60, 2, 10, 5, 1, 10, 1, 5, 6],  // ack growth
            1 => [5, 2, 5, 70, 3, 5, 1, 3, 6],    // nak storm
            2 => [5, 1, 5, 5, 1, 70, 2, 5, 6],    // recovery ticks
            3 => [20, 5, 20, 20, 5, 20, 3, 10, 10],
            4 => [10, 2, 60, 5, 1, 10, 1, 5, 6],  // global acks
            6 => [0, 0, 0, 0, 0, 100, 0, 0, 0],   // pure time-based recovery
            7 => [100, 0, 0, 0, 0, 0, 0, 0, 0],   // pure earned ACKs under load
            _ => [15, 5, 10, 25, 5, 25, 5, 5, 5],
        };
        let op = rng.weighted(&weights);
        let dt = match op {
            3 if phase == 1 => rng.below(60),
            5 if phase == 6 => *rng.pick(&[301u64, 350, 501, 1001, 2001]),
            5 => *rng.pick(&[1u64, 100, 299, 300, 301, 500, 501, 999, 1000, 1001, 2000, 2001, 3000, 5001, 7001, 10_001, 60_000]),
            _ => rng.below(30),
        };
        now += dt;
        let mut reset_op = false;
        match op {
            0 => {
                // earned SRTLA ACK with chosen post-removal in-flight
                let want_inflight = if phase == 7 { 70 + rng.below(20) as i32 } else { match rng.below(6) {
                    0 => 0,
                    1 => (c.window / 1000 - 1).max(0),
                    2 => c.window / 1000,
                    3 => c.window / 1000 + 1,
                    4 => 100 + rng.below(300) as i32,
                    _ => rng.below(80) as i32,
                } };
                while c.in_flight_packets < want_inflight + 1 {
                    seq += 1;
                    c.register_packet(seq, now);
                }
                let s = *c.packet_log.keys().next().unwrap();
                let found = c.handle_srtla_ack_specific(s, classic, now);
                if !found {
                    rep.violation("C06.harness", "held sequence not found".into());
                }
                if c.window < w0 {
                    rep.violation("C06.ack.decreased-window", format!("earned SRTLA ACK: window {w0} -> {} (in-flight after removal {}, classic {classic})", c.window, c.in_flight_packets));
                }
                if c.window > w0 {
                    rep.count("ack.earned_grew");
                } else {
                    rep.count("ack.earned_not_grown");
                }
            }
            1 => {
                let found = c.handle_srtla_ack_specific(seq + 5000, classic, now);
                if found || c.window != w0 {
                    rep.violation("C06.ack.unearned-changed-window", format!("un-earned SRTLA ACK changed window {w0} -> {}", c.window));
                }
            }
            2 => {
                if rng.chance(1, 10) {
                    c.last_received = None;
                    c.connected = rng.chance(1, 2);
                }
                let applies = c.connected && c.last_received.is_some();
                c.handle_srtla_ack_global();
                let expect = if applies { (w0 + 1).min(WMAX) } else { w0 };
                if c.window != expect {
                    rep.violation("C06.ack.global", format!("global ACK: window {w0} -> {} expected {expect} (connected {}, heard {})", c.window, c.connected, c.last_received.is_some()));
                }
                if applies {
                    rep.count("ack.global_applied");
                } else {
                    rep.count("ack.global_not_applied");
                }
                c.connected = true;
                c.last_received = Some(now);
            }
            3 => {
                if c.packet_log.is_empty() {
                    seq += 1;
                    c.register_packet(seq, now);
                }
                let s = *c.packet_log.keys().next().unwrap();
                let ok = c.handle_nak(s, now);
                let expect = (w0 - 100).max(WMIN);
                if !ok || c.window != expect {
                    rep.violation("C06.nak.window", format!("NAK on held seq: window {w0} -> {} expected {expect}", c.window));
                }
                if c.window > w0 {
                    rep.violation("C06.nak.increased-window", format!("NAK increased window {w0} -> {}", c.window));
                }
                if w0 == WMIN {
                    rep.count("nak.at_floor");
                }
            }
            4 => {
                let ok = c.handle_nak(seq + 9999, now);
                if ok || c.window != w0 {
                    rep.violation("C06.nak.unknown-changed-window", format!("unknown NAK changed window {w0} -> {}", c.window));
                }
            }
            5 => {
                // time-based recovery as the enhanced shell invokes it; the velocity comes from real samples
                rtt_ms = (rtt_ms + rtt_slope).clamp(5.0, 5000.0);
                c.rtt.update_estimate(rtt_ms as u64, now);
                let vel = c.get_rtt_velocity();
                let since_nak = c.time_since_last_nak_ms(now);
                c.perform_window_recovery(now);
                if c.window < w0 {
                    rep.violation("C06.recovery.decreased-window", format!("time-based recovery: window {w0} -> {}", c.window));
                }
                if c.window > w0 {
                    rep.count("recovery.applied");
                    if c.window == WMAX {
                        rep.count("recovery.capped_at_ceiling");
                    }
                    if vel > 2.0 {
                        rep.count("recovery.velocity_halved");
                    }
                    match since_nak {
                        None => rep.count("recovery.band.gt10s"),
                        Some(a) if a > 10_000 => rep.count("recovery.band.gt10s"),
                        Some(a) if a > 7_000 => rep.count("recovery.band.7to10s"),
                        Some(a) if a > 5_000 => rep.count("recovery.band.5to7s"),
                        Some(_) => rep.count("recovery.band.lt5s"),
                    }
                }
            }
            6 => {
                reset_op = true;
                match rng.below(3) {
                    0 => {
                        c.mark_for_recovery();
                        rep.count("reset.mark_for_recovery");
                        if c.window != WDEF {
                            rep.violation("C06.reset.window-not-default", format!("mark_for_recovery left window {}", c.window));
                        }
                    }
                    1 => {
                        c.reset_for_reconnect(now);
                        rep.count("reset.reset_for_reconnect");
                        if c.window != WDEF {
                            rep.violation("C06.reset.window-not-default", format!("reset_for_reconnect left window {}", c.window));
                        }
                    }
                    _ => {}
                }
                // REG3
                c.clear_pre_registration_state(now);
                c.connected = true;
                c.last_received = Some(now);
                if rng.chance(1, 3) {
                    // resume from an arbitrary reachable window
                    c.window = WMIN + rng.below(2000) as i32;
                }
            }
            7 => {
                // direct entry points with extreme in-flight
                let mut w = c.window;
                let inflight = *rng.pick(&[0, 1, w / 1000 - 1, w / 1000, w / 1000 + 1, 1_000_000, i32::MAX / 1000 - 1, i32::MAX / 1000, i32::MAX / 1000 + 1, i32::MAX]);
                let mut cc: CongestionControl = c.congestion.clone();
                if classic {
                    cc.handle_srtla_ack_specific_classic(&mut w, inflight, 5, "L");
                } else {
                    cc.handle_srtla_ack_enhanced(&mut w, inflight, "L", now);
                }
                rep.count("direct.extreme_inflight");
                if w < c.window || !(WMIN..=WMAX).contains(&w) {
                    rep.violation("C06.ack.direct-extreme", format!("ACK entry point with in-flight {inflight}: window {} -> {w}", c.window));
                }
                if inflight as i64 * 1000 > c.window as i64 && w == c.window && c.window < WMAX {
                    rep.violation("C06.ack.direct-extreme-not-grown", format!("ACK entry point with in-flight {inflight} x1000 > window {} did not grow the window (overflow?)", c.window));
                }
                c.window = w;
                c.congestion = cc;
            }
            _ => {
                // NAK burst
                let k = 2 + rng.below(39);
                for _ in 0..k {
                    seq += 1;
                    c.register_packet(seq, now);
                    let before = c.window;
                    c.handle_nak(seq, now);
                    if c.window != (before - 100).max(WMIN) {
                        rep.violation("C06.nak.window", format!("NAK in burst: window {before} -> {}", c.window));
                    }
                    now += rng.below(25);
                }
            }
        }
        rep.eval();
        rep.count("ops");
        let w1 = c.window;
        let fr1 = c.congestion.fast_recovery_mode;
        if !(WMIN..=WMAX).contains(&w1) {
            rep.violation("C06.range", format!("after op {op}: window {w1} outside [1000, 60000] (was {w0})"));
        }
        let is_nak_op = matches!(op, 3 | 8);
        if !fr0 && fr1 {
            rep.count("fast_recovery.entered");
            interesting = true;
            if !is_nak_op || w1 > 2000 {
                rep.violation("C06.fast-recovery.entered-unlawfully", format!("fast recovery entered in op {op} at window {w1}"));
            }
        }
        if fr0 && !fr1 {
            interesting = true;
            if reset_op {
                rep.count("fast_recovery.left_by_reset");
            } else if w1 >= 12_000 {
                if op == 5 {
                    rep.count("fast_recovery.left_at_12000_by_recovery");
                } else {
                    rep.count("fast_recovery.left_at_12000_by_ack");
                }
            } else {
                rep.violation("C06.fast-recovery.left-unlawfully", format!("fast recovery left in op {op} at window {w1} (< 12000, no reset)"));
            }
        }
        if w1 == WMIN {
            rep.count("window.at_floor");
            interesting = true;
        }
        if w1 == WMAX {
            rep.count("window.at_ceiling");
            interesting = true;
        }
        rep.t(|| format!("t={now} op={op} window {w0}->{w1} fr {fr0}->{fr1} inflight={}", c.in_flight_packets));
        kinds.push(bucket(w1) * 100 + (fr1 as u64) * 10 + op as u64);
    }
    if interesting {
        for w in kinds.windows(3) {
            let mut f = Fnv::new();
            for k in w {
                f.u64(*k);
            }
            rep.distinct(f.finish());
        }
        if rep.wants_sample() {
            rep.sample(serde_json::json!({"classic": classic, "ops": n_ops, "first (window-bucket*100 + fr*10 + op) codes": kinds.iter().take(60).collect::<Vec<_>>()}));
        }
    }
}

pub fn run(cfg: &RunCfg) -> Report {
    let cases = cfg.cases(20_000, 3_000_000);
    let mut rep = run_cases(cfg, 0, cases, Duration::from_secs(3600), |_c, rng, rep| run_history(rng, rep));
    rep.merge(crate::sim::c06_shell::run(cfg));
    rep
}
