//! C04 — stream data is only ever routed onto eligible uplinks.
//! Stream 0: selector part (state monitor on the C03 state stream).
//! Stream 1: shell part (E1 simulation, see sim/) — routed link of every unique
//! datagram, including the critical-window / retransmit override.

use std::time::Duration;

use crate::report::{PropSpec, Report, RunCfg};
use crate::runner::run_cases;

pub const SPEC: PropSpec = PropSpec {
    id: "C04",
    level: "exploration",
    rule: "(a) selector stream: the C03 stratified link states; every Some(i) returned by select_connection_idx must name a link that is registered since its last reset, connected, heard within the timeout and not stall-gated by that very call. (b) shell stream: seeded E1 runs of the real handle_srt_packet arm on loopback sockets with retransmit-flagged data, open critical windows, gated / silent-but-unreaped / re-registering / REG_ERR'd links; the link whose queue grew (unique copy) must be eligible in the post-arm snapshot. Non-trivial = a decision taken while some link was ineligible but connected or schedulable; distinct = distinct abstract vectors (per link eligibility bits, packet kind, override active, result).",
    assumptions: &[
        "eligibility is recomputed by the monitor from connected / phase / last_received / is_stall_gated() at the instant of the decision",
    ],
    floors: &[
        ("selector.some", 50_000, 2_000_000),
        ("selector.held_previous", 5_000, 200_000),
        ("guard.gated_some_link", 2_000, 80_000),
        ("shell.routed_unique", 20_000, 500_000),
        ("shell.override.with_gated_link", 500, 10_000),
        ("shell.override.with_silent_unreaped_link", 500, 10_000),
        ("shell.override.decisions", 2_000, 50_000),
        ("shell.routed_while_some_link_ineligible", 5_000, 100_000),
    ],
};

pub fn run(cfg: &RunCfg) -> Report {
    let cases = cfg.cases(2_000_000, 40_000_000);
    let mut rep = run_cases(cfg, 0, cases, Duration::from_secs(3600), |_c, rng, rep| super::c03::run_state(rng, rep, "C04"));
    let shell = crate::sim::c04_shell::run(cfg);
    rep.merge(shell);
    rep
}
