//! C03 — no blackout: a usable uplink always gets the packet.
//! C04 (selector part) — the chosen link is eligible.
//!
//! State monitor over the real `select_connection_idx` on stratified, reachable
//! link states with real stall-latch / silence-pull history (see linkgen.rs).

use std::time::Duration;

use srtla_core::connection::SrtlaConnection;
use srtla_core::selection::enhanced::in_flight_cap_exceeded;
use srtla_core::selection::select_connection_idx;

use crate::linkgen::{self, GenOpts, LinkKind, Scenario};
use crate::prng::{Fnv, Rng};
use crate::report::{PropSpec, Report, RunCfg};
use crate::runner::run_cases;

pub const SPEC: PropSpec = PropSpec {
    id: "C03",
    level: "exploration",
    rule: "stratified-random link states over 1-4 links (kind: never registered / warming 0-1 probes / live / degraded / REG_ERR'd / REG_ERR'd-then-heard / marked for recovery / reconnected; receive age around the timeout; in-flight around the stall threshold and extreme; window; proof age around the staleness window; RTT baseline; weak / loss-degraded; CC target vs measured bitrate; NAK history; queued packets; previous index incl. out of range) x configuration (mode, quality, stall guard, stall_min_in_flight in {-1,0,1,4,32,MAX}, stall_ack_stale_ms in {0..60000}, timeout in {1000,5000,15000,60000}); links are built through real srtla-core transitions and 0-6 real earlier select calls give real latch / pull history. Oracle: any usable link (registered, connected, heard within the timeout) => select returns Some. Non-trivial = at least one usable link and at least one gate (latch, pull, weak, loss-degraded, in-flight cap) engaged on a usable link; distinct = distinct abstract vectors (per link: kind class, usable, latched, gated, weak, loss, capped; config bits; result class).",
    assumptions: &[
        "usable(link) is evaluated by the monitor from connected / phase / last_received and the configured timeout, not by is_timed_out",
        "connected links always carry a receive stamp (REG3 sets it); the combination connected && last_received == None has no real-transition recipe and is excluded",
        "extreme in-flight counts (>= 10^4) are stamped on in_flight_packets; everything else comes from real transitions",
    ],
    floors: &[
        ("usable.some", 50_000, 2_000_000),
        ("usable.exactly_one_of_several", 5_000, 200_000),
        ("only_usable.latched", 1_000, 40_000),
        ("only_usable.pulled_or_latched_but_not_gated", 1_000, 40_000),
        ("only_usable.weak", 1_000, 40_000),
        ("only_usable.loss_degraded", 1_000, 40_000),
        ("only_usable.capped", 300, 10_000),
        ("only_usable.all_gates", 20, 500),
        ("guard.gated_some_link", 2_000, 80_000),
        ("result.none_with_no_usable", 5_000, 200_000),
        ("mode.classic", 50_000, 2_000_000),
        ("mode.enhanced", 50_000, 2_000_000),
    ],
};

fn kind_class(k: LinkKind) -> u64 {
    match k {
        LinkKind::NeverRegistered => 0,
        LinkKind::Warming0 | LinkKind::Warming1 => 1,
        LinkKind::LiveByProbes | LinkKind::LiveByTimeout => 2,
        LinkKind::Degraded => 3,
        LinkKind::RegErr => 4,
        LinkKind::RegErrHeard => 5,
        LinkKind::Recovering => 6,
        LinkKind::Reconnected => 7,
    }
}

/// Property-level eligibility (C04): registered since last reset, connected, not
/// timed out, not currently stall-gated.
pub fn eligible(c: &SrtlaConnection, now: u64, timeout_ms: u64) -> bool {
    linkgen::usable(c, now, timeout_ms) && !c.is_stall_gated()
}

pub struct SelOutcome {
    pub result: Option<usize>,
    pub any_usable: bool,
}

/// Run the call under test on a scenario and apply the C03 and C04 oracles.
/// `prop` selects which property's violations are reported ("C03" or "C04").
pub fn check_scenario(s: &mut Scenario, rep: &mut Report, prop: &str) -> SelOutcome {
    let now = s.now;
    let t = s.cfg.conn_timeout_ms;
    let usable_before: Vec<bool> = s.conns.iter().map(|c| linkgen::usable(c, now, t)).collect();
    let any_usable = usable_before.iter().any(|u| *u);
    let n_usable = usable_before.iter().filter(|u| **u).count();
    let result = select_connection_idx(&mut s.conns, s.last_idx, now, &s.cfg);
    rep.eval();
    rep.t(|| format!("select(now={now}, last={:?}, cfg={:?}) -> {result:?}; usable={usable_before:?}", s.last_idx, s.cfg));

    // coverage accounting
    if s.cfg.mode.is_classic() {
        rep.count("mode.classic");
    } else {
        rep.count("mode.enhanced");
    }
    let mut nontrivial = false;
    if any_usable {
        rep.count("usable.some");
        if n_usable == 1 && s.conns.len() > 1 {
            rep.count("usable.exactly_one_of_several");
        }
        if n_usable == 1 {
            let i = usable_before.iter().position(|u| *u).unwrap();
            let c = &s.conns[i];
            let latched = c.stall_latched();
            let capped = in_flight_cap_exceeded(c);
            if latched {
                rep.count("only_usable.latched");
            }
            if latched && !c.is_stall_gated() {
                rep.count("only_usable.pulled_or_latched_but_not_gated");
            }
            if c.weak {
                rep.count("only_usable.weak");
            }
            if c.loss_degraded {
                rep.count("only_usable.loss_degraded");
            }
            if capped {
                rep.count("only_usable.capped");
            }
            if latched && c.weak && c.loss_degraded && capped {
                rep.count("only_usable.all_gates");
            }
        }
    } else if result.is_none() {
        rep.count("result.none_with_no_usable");
    }
    if s.conns.iter().any(|c| c.is_stall_gated()) {
        rep.count("guard.gated_some_link");
    }
    let mut f = Fnv::new();
    f.u64(s.cfg.mode.is_classic() as u64);
    f.u64(s.cfg.quality_enabled as u64);
    f.u64(s.cfg.stall_deselect as u64);
    for (i, c) in s.conns.iter().enumerate() {
        let bits = (usable_before[i] as u64)
            | (c.stall_latched() as u64) << 1
            | (c.is_stall_gated() as u64) << 2
            | (c.weak as u64) << 3
            | (c.loss_degraded as u64) << 4
            | (in_flight_cap_exceeded(c) as u64) << 5;
        if usable_before[i] && (bits >> 1) != 0 {
            nontrivial = true;
        }
        f.u64(kind_class(s.specs[i].kind));
        f.u64(bits);
    }
    f.u64(match result {
        None => 0,
        Some(i) if usable_before.get(i).copied().unwrap_or(false) => 1,
        Some(_) => 2,
    });
    if nontrivial {
        rep.distinct(f.finish());
    }

    // ---- C03 oracle -------------------------------------------------------
    if prop == "C03" && any_usable && result.is_none() {
        let sig = if s.conns.iter().enumerate().any(|(i, c)| !usable_before[i] && !c.connected && c.is_schedulable()) {
            // a disconnected-but-schedulable link (REG_ERR'd and heard from again) is in the pool
            "C03.blackout.disconnected-schedulable-link-present"
        } else {
            "C03.blackout"
        };
        rep.violation(
            sig,
            format!(
                "select_connection_idx returned None although links {:?} are usable (registered, connected, heard within {} ms); per-link (kind, connected, phase-schedulable, latched, gated, weak, loss, in_flight): {:?}; cfg {:?}",
                usable_before.iter().enumerate().filter(|(_, u)| **u).map(|(i, _)| i).collect::<Vec<_>>(),
                t,
                s.conns.iter().zip(s.specs.iter()).map(|(c, sp)| (sp.kind, c.connected, c.is_schedulable(), c.stall_latched(), c.is_stall_gated(), c.weak, c.loss_degraded, c.in_flight_packets)).collect::<Vec<_>>(),
                s.cfg
            ),
        );
    }
    // ---- C04 oracle (selector part) --------------------------------------
    if prop == "C04" {
        if let Some(i) = result {
            rep.count("selector.some");
            if i >= s.conns.len() {
                rep.violation("C04.selector.index-out-of-range", format!("returned index {i} with {} links", s.conns.len()));
            } else if !eligible(&s.conns[i], now, t) {
                let c = &s.conns[i];
                let sig = if !c.connected {
                    "C04.selector.chose-disconnected"
                } else if !c.is_schedulable() {
                    "C04.selector.chose-registering"
                } else if c.is_stall_gated() {
                    "C04.selector.chose-gated"
                } else {
                    "C04.selector.chose-timed-out"
                };
                rep.violation(
                    sig,
                    format!(
                        "selector returned link {i} (kind {:?}) which is not eligible: connected={} schedulable={} gated={} last_received_age={:?} timeout={} cfg={:?}",
                        s.specs[i].kind,
                        c.connected,
                        c.is_schedulable(),
                        c.is_stall_gated(),
                        c.last_received.map(|lr| now.saturating_sub(lr)),
                        t,
                        s.cfg
                    ),
                );
            }
            if Some(i) == s.last_idx && s.conns.len() > 1 {
                rep.count("selector.held_previous");
            }
        }
    }
    SelOutcome { result, any_usable }
}

pub fn run_state(rng: &mut Rng, rep: &mut Report, prop: &str) {
    let opts = GenOpts { one_usable_bias: true, ..Default::default() };
    let mut s = linkgen::gen_scenario(rng, &opts);
    let want_sample = rep.wants_sample();
    let out = check_scenario(&mut s, rep, prop);
    if want_sample && out.any_usable && s.conns.len() > 1 {
        let mut d = linkgen::describe(&s);
        d["result"] = serde_json::json!(out.result);
        rep.sample(d);
    }
}

pub fn run(cfg: &RunCfg) -> Report {
    let cases = cfg.cases(3_000_000, 360_000_000);
    run_cases(cfg, 0, cases, Duration::from_secs(3600), |_c, rng, rep| run_state(rng, rep, "C03"))
}
