//! C18 — runtime control protocol is total, well-formed and takes effect.
//!
//! Lanes: (1) in-process differential: every generated line through `dispatch`,
//! `dispatch_async` without and with a subscription context, against a reference
//! JSON-RPC + configuration model; (2) concurrent setters / snapshot readers with a
//! register-history checker; (3) process lane: the production stdin listener and
//! Unix control socket in a child process (harness/src/bin/vctl.rs), fed raw bytes.

use std::io::{BufRead, BufReader, Read, Write};
use std::os::unix::net::UnixStream;
use std::process::{Command, Stdio};
use std::sync::Arc;
use std::sync::atomic::{AtomicBool, Ordering};
use std::time::{Duration, Instant};

use serde_json::{Value, json};
use srtla_core::priority::CriticalWindow;
use srtla_send::config::DynamicConfig;
use srtla_send::control::{SubscriptionContext, dispatch, dispatch_async};
use srtla_send::stats::SharedStats;
use srtla_send::subscriptions::SubscriptionHub;

use crate::prng::{Fnv, Rng};
use crate::report::{PropSpec, Report, RunCfg};
use crate::rt;
use crate::runner::run_cases;

pub const SPEC: PropSpec = PropSpec {
    id: "C18",
    level: "exploration",
    rule: "(1) sequences of 1-200 lines from a grammar (every method x {well-typed, each parameter missing, every JSON type in each slot, extremes -1/0/999/1000/1001/59999/60000/60001/2^63/2^64-1/1e400/1.5}, ids of every JSON type, jsonrpc versions, extra and duplicate keys, notifications) plus byte-level mutations of valid lines, arbitrary UTF-8, whitespace, 200-deep nesting and 100 kB lines; each line goes through dispatch, dispatch_async(no context) and dispatch_async(with a subscription context) on three DynamicConfig instances kept in lock-step; reference model: unparsable or not an object with string jsonrpc + string method => exactly one response, error -32700, id null; version != \"2.0\" => -32600 echoing the id (nothing for a notification); unknown method -32601; bad params -32602; otherwise a result; responses carry jsonrpc \"2.0\", the request's id (JSON-equal) and exactly one of result / error; no id => no response but the effect is applied; after every line snapshot() and a following get_status equal the configuration model (timeout clamped to 1000..60000 and echoed); the three entry points answer identically except for the subscription methods. (2) 2-8 threads: setters with unique values through dispatch, readers taking snapshots: every read is the initial or a written value, timeout always within [1000,60000], a reader never sees one writer's values go backwards, final state = last write per single-writer field. (3) process lane: the production spawn_stdin_listener and control_socket::spawn in a child process fed raw byte lines (incl. non-UTF-8); stdout and the socket are held to the same oracle and a later valid request must still be answered; a further socket connection that holds a stats subscription (the process publishes every millisecond) sends each request in two writes a few ms apart, so pushes interleave with half-read lines. Non-trivial = every line; distinct = distinct (method class, params class, id class, version class, expected outcome) tuples and distinct line hashes for mutated input. E6 live lane (12 sessions quick / 96 thorough; DESIGN.md 9.1): on a live production sender process carrying client traffic over 2-4 uplinks (start-up timeout 10000 ms), set_conn_timeout (2500 / 3000 ms), set_mode (toggled), set_quality and set_stall_deselect (on / off, before / after the timeout) are sent on the control connection that also receives the stats pushes; each must be answered with the applied value; the mode must show in every stats push from 2 ticks after the acknowledgement; then the uplink carrying most of the traffic is black-holed and must show as timed out in the sender's own stats within ceil(new timeout) + 1 sender ticks (the start-up value or the built-in 5000 ms default would need >= 5); its socket is never re-opened earlier than the new timeout after the receiver side's last datagram.",
    assumptions: &[
        "a top-level JSON array is an unspecified shape (serde accepts positional structs): either outcome is accepted",
        "\"id\": null is treated like an absent id (serde maps it to None); the property does not speak of it",
        "get_stats is only required to return a result (the stats provider is registered)",
    ],
    floors: &[
        ("lines", 300_000, 12_000_000),
        ("sequences", 10_000, 400_000),
        ("expect.parse_error", 20_000, 800_000),
        ("expect.invalid_request", 5_000, 200_000),
        ("expect.method_not_found", 10_000, 400_000),
        ("expect.invalid_params", 20_000, 800_000),
        ("expect.result", 50_000, 2_000_000),
        ("expect.notification_applied", 5_000, 200_000),
        ("timeout.clamped_low", 1_000, 40_000),
        ("timeout.clamped_high", 1_000, 40_000),
        ("status.compared", 100_000, 4_000_000),
        ("differential.compared", 300_000, 12_000_000),
        ("subscription.methods_with_context", 2_000, 80_000),
        ("concurrent.reads", 200_000, 8_000_000),
        ("concurrent.writes", 50_000, 2_000_000),
        ("process.stdin_lines", 300, 10_000),
        ("process.socket_lines", 300, 10_000),
        ("process.non_utf8_lines", 20, 600),
        ("process.answered_after_hostile_input", 10, 300),
        ("process.socket_split_lines_with_pushes", 100, 1_200),
        ("live.sessions.timing_reliable", 6, 48),
        ("live.C18.control_timeout_effect_checked", 6, 48),
        ("live.C18.control_mode_visible_checked", 40, 320),
    ],
};

// ------------------------------------------------------------------------------------------------
// reference model
// ------------------------------------------------------------------------------------------------

#[derive(Clone, Debug, PartialEq)]
pub struct Model {
    pub classic: bool,
    pub quality: bool,
    pub stall: bool,
    pub timeout: u64,
}

impl Default for Model {
    fn default() -> Self {
        Model { classic: false, quality: true, stall: true, timeout: 5000 }
    }
}

#[derive(Clone, Debug, PartialEq)]
pub enum Expect {
    None,
    Error(i64, Value),
    Result(Value, Option<Value>),
    /// shape the property does not speak of (top-level array)
    Unspecified,
}

/// Keys of the top-level object, in order (the line is known to be a valid JSON object).
fn top_level_keys(line: &str) -> Vec<String> {
    let b = line.as_bytes();
    let mut keys = Vec::new();
    let mut depth = 0i32;
    let mut i = 0;
    let mut expect_key = false;
    while i < b.len() {
        match b[i] {
            b'"' => {
                let start = i;
                i += 1;
                while i < b.len() && b[i] != b'"' {
                    if b[i] == b'\\' {
                        i += 1;
                    }
                    i += 1;
                }
                if depth == 1 && expect_key {
                    if let Ok(Value::String(s)) = serde_json::from_str::<Value>(&line[start..=i.min(b.len() - 1)]) {
                        keys.push(s);
                    }
                    expect_key = false;
                }
            }
            b'{' => {
                depth += 1;
                if depth == 1 {
                    expect_key = true;
                }
            }
            b'[' => depth += 1,
            b'}' | b']' => depth -= 1,
            b',' if depth == 1 => expect_key = true,
            _ => {}
        }
        i += 1;
    }
    keys
}

pub fn reference(model: &mut Model, raw: &str, with_ctx: bool, rep: &mut Report) -> Expect {
    let line = raw.trim();
    if line.is_empty() {
        return Expect::None;
    }
    let v: Value = match serde_json::from_str(line) {
        Ok(v) => v,
        Err(e) => {
            if e.to_string().contains("number out of range") {
                // grammatically valid JSON whose number no f64 can hold: whether it matters depends on
                // whether it sits in a field the dispatcher looks at (ignored fields are skipped unparsed)
                rep.count("expect.unspecified_out_of_range_number");
                return Expect::Unspecified;
            }
            rep.count("expect.parse_error");
            return Expect::Error(-32700, Value::Null);
        }
    };
    let obj = match &v {
        Value::Object(o) => o,
        Value::Array(_) => {
            rep.count("expect.unspecified_array");
            return Expect::Unspecified;
        }
        _ => {
            rep.count("expect.parse_error");
            return Expect::Error(-32700, Value::Null);
        }
    };
    let keys = top_level_keys(line);
    for k in ["jsonrpc", "method", "params", "id"] {
        if keys.iter().filter(|x| x.as_str() == k).count() > 1 {
            rep.count("expect.parse_error");
            rep.count("expect.parse_error.duplicate_key");
            return Expect::Error(-32700, Value::Null);
        }
    }
    let (Some(Value::String(ver)), Some(Value::String(method))) = (obj.get("jsonrpc"), obj.get("method")) else {
        rep.count("expect.parse_error");
        return Expect::Error(-32700, Value::Null);
    };
    let id = obj.get("id").filter(|x| !x.is_null()).cloned();
    let params = obj.get("params").cloned().unwrap_or(Value::Null);
    if ver != "2.0" {
        return match id {
            Some(id) => {
                rep.count("expect.invalid_request");
                Expect::Error(-32600, id)
            }
            None => Expect::None,
        };
    }
    // effect + result
    let outcome: Result<Option<Value>, i64> = match method.as_str() {
        "set_mode" => match params.get("mode").and_then(Value::as_str) {
            Some("classic") => {
                model.classic = true;
                Ok(Some(json!({"mode": "classic"})))
            }
            Some("enhanced") => {
                model.classic = false;
                Ok(Some(json!({"mode": "enhanced"})))
            }
            _ => Err(-32602),
        },
        "set_quality" => match params.get("enabled").and_then(Value::as_bool) {
            Some(b) => {
                model.quality = b;
                Ok(Some(json!({"enabled": b})))
            }
            None => Err(-32602),
        },
        "set_stall_deselect" => match params.get("enabled").and_then(Value::as_bool) {
            Some(b) => {
                model.stall = b;
                Ok(Some(json!({"enabled": b})))
            }
            None => Err(-32602),
        },
        "set_conn_timeout" => match params.get("ms").and_then(Value::as_u64) {
            Some(ms) => {
                if ms < 1000 {
                    rep.count("timeout.clamped_low");
                }
                if ms > 60_000 {
                    rep.count("timeout.clamped_high");
                }
                model.timeout = ms.clamp(1000, 60_000);
                Ok(Some(json!({"ms": model.timeout})))
            }
            None => Err(-32602),
        },
        "get_status" => Ok(Some(status_of(model))),
        "get_stats" => Ok(None),
        "subscribe" | "unsubscribe" | "get_subscription_count" if with_ctx => {
            rep.count("subscription.methods_with_context");
            return match id {
                Some(_) => Expect::Unspecified,
                None => Expect::None,
            };
        }
        _ => Err(-32601),
    };
    match (id, outcome) {
        (None, Ok(_)) => {
            rep.count("expect.notification_applied");
            Expect::None
        }
        (None, Err(_)) => Expect::None,
        (Some(id), Ok(r)) => {
            rep.count("expect.result");
            Expect::Result(id, r)
        }
        (Some(id), Err(code)) => {
            rep.count(if code == -32601 { "expect.method_not_found" } else { "expect.invalid_params" });
            Expect::Error(code, id)
        }
    }
}

fn status_of(m: &Model) -> Value {
    json!({
        "mode": if m.classic { "classic" } else { "enhanced" },
        "quality_enabled": m.quality,
        "stall_deselect": m.stall,
        "conn_timeout_ms": m.timeout,
    })
}

/// JSON equality of ids; numbers beyond 2^53 are compared with a 1e-12 relative tolerance because
/// serde_json holds them as f64 and its default float parser / printer is not round-trip exact.
fn id_eq(a: &Value, b: &Value) -> bool {
    if a == b {
        return true;
    }
    match (a, b) {
        // structured ids are echoed too: the same tolerance applies to floats nested inside them (serde_json's
        // default float parser / printer is not round-trip exact, and the text goes through it twice)
        (Value::Array(x), Value::Array(y)) => x.len() == y.len() && x.iter().zip(y.iter()).all(|(p, q)| id_eq(p, q)),
        (Value::Object(x), Value::Object(y)) => x.len() == y.len() && x.iter().all(|(k, p)| y.get(k).is_some_and(|q| id_eq(p, q))),
        _ => match (a.as_f64(), b.as_f64()) {
            (Some(x), Some(y)) if a.is_f64() || b.is_f64() => (x - y).abs() <= 1e-12 * x.abs().max(y.abs()),
            _ => false,
        },
    }
}

/// Compare one actual response (as JSON text, or None) with the expectation.
pub fn check_response(exp: &Expect, got: Option<&str>, line: &str, who: &str, rep: &mut Report) {
    let short = |s: &str| s.chars().take(160).collect::<String>();
    match (exp, got) {
        (Expect::Unspecified, _) => {}
        (Expect::None, None) => {}
        (Expect::None, Some(g)) => rep.violation("C18.response.unexpected", format!("{who}: line {:?} must not be answered, got {}", short(line), short(g))),
        (_, None) => rep.violation("C18.response.missing", format!("{who}: line {:?} expected {exp:?} but no response", short(line))),
        (e, Some(g)) => {
            let Ok(v) = serde_json::from_str::<Value>(g) else {
                rep.violation("C18.response.not-json", format!("{who}: response {} is not JSON", short(g)));
                return;
            };
            let has_r = v.get("result").is_some();
            let has_e = v.get("error").is_some();
            if v.get("jsonrpc") != Some(&json!("2.0")) || has_r == has_e || v.get("id").is_none() {
                rep.violation("C18.response.malformed", format!("{who}: response {} to {:?} is not a JSON-RPC 2.0 response with exactly one of result / error", short(g), short(line)));
                return;
            }
            match e {
                Expect::Error(code, id) => {
                    if v["error"]["code"].as_i64() != Some(*code) {
                        rep.violation(&format!("C18.response.wrong-outcome.expected{code}"), format!("{who}: line {:?}: expected error {code}, got {}", short(line), short(g)));
                    } else if !id_eq(&v["id"], id) {
                        rep.violation("C18.response.id-not-echoed", format!("{who}: line {:?}: id {} expected {}", short(line), v["id"], id));
                    }
                }
                Expect::Result(id, r) => {
                    if !has_r {
                        rep.violation("C18.response.wrong-outcome.expected-result", format!("{who}: line {:?}: expected a result, got {}", short(line), short(g)));
                    } else if !id_eq(&v["id"], id) {
                        rep.violation("C18.response.id-not-echoed", format!("{who}: line {:?}: id {} expected {}", short(line), v["id"], id));
                    } else if let Some(r) = r {
                        // every expected key must match (get_status has extra counters)
                        for (k, val) in r.as_object().unwrap() {
                            if &v["result"][k] != val {
                                rep.violation("C18.result.value", format!("{who}: line {:?}: result.{k} = {} expected {}", short(line), v["result"][k], val));
                            }
                        }
                    }
                }
                _ => {}
            }
        }
    }
}

// ------------------------------------------------------------------------------------------------
// generator
// ------------------------------------------------------------------------------------------------

/// Free text of arbitrary length and script (1- to 4-byte UTF-8 characters, quotes, escapes, controls):
/// every place where the dispatcher echoes or formats client-supplied text gets such strings, with
/// lengths around every plausible buffer / truncation size.
fn gen_text(rng: &mut Rng) -> String {
    let len = match rng.below(8) {
        0 => rng.usize_below(4),
        1 => 30 + rng.usize_below(40),
        2 => 60 + rng.usize_below(20),
        3 => 100 + rng.usize_below(60),
        4 => 120 + rng.usize_below(16),
        5 => 250 + rng.usize_below(20),
        6 => 500 + rng.usize_below(40),
        _ => 1000 + rng.usize_below(3200),
    };
    let alphabet: &[char] = match rng.below(5) {
        0 => &['a', 'Z', '_', '7'],
        1 => &['\u{e9}', '\u{df}', 'a', '\u{3a9}'],
        2 => &['\u{6f22}', '\u{5b57}', '\u{20ac}', 'x'],
        3 => &['\u{1f600}', '\u{1f680}', 'q'],
        _ => &['a', '\u{e9}', '\u{6f22}', '\u{1f600}', '"', '\\', '\t', ' ', '\u{0}', '\u{7f}', '\u{feff}', '\u{85}', '\u{a0}'],
    };
    let mut out = String::new();
    // a random ASCII prefix of 0-3 bytes shifts every later character boundary
    for _ in 0..rng.below(4) {
        out.push('p');
    }
    for _ in 0..len {
        out.push(*rng.pick(alphabet));
    }
    out
}

fn gen_value(rng: &mut Rng, depth: u32) -> Value {
    match rng.below(if depth > 2 { 7 } else { 9 }) {
        0 => Value::Null,
        1 => json!(rng.chance(1, 2)),
        2 => json!(rng.below(100_000)),
        3 => json!(-(rng.below(1000) as i64)),
        4 => json!(rng.f64() * 1e6),
        5 if rng.chance(1, 4) => Value::String(gen_text(rng)),
        5 => json!(*rng.pick(&["classic", "enhanced", "", "Classic", "stats", "priority.window", "sub-0", "\u{1f600}", "a\"b\\c\n"])),
        6 => json!(u64::MAX - rng.below(3)),
        7 => Value::Array((0..rng.below(4)).map(|_| gen_value(rng, depth + 1)).collect()),
        _ => {
            let mut m = serde_json::Map::new();
            for _ in 0..rng.below(4) {
                m.insert(rng.pick(&["mode", "enabled", "ms", "topic", "subscription_id", "x"]).to_string(), gen_value(rng, depth + 1));
            }
            Value::Object(m)
        }
    }
}

fn num_text(rng: &mut Rng) -> String {
    rng.pick(&["-1", "0", "999", "1000", "1001", "5000", "59999", "60000", "60001", "9223372036854775808", "18446744073709551615", "18446744073709551616", "1e400", "1.5", "1000.0", "1e3", "-0", "00", "0x10", "1_000"]).to_string()
}

pub fn gen_line(rng: &mut Rng, class: &mut u64) -> String {
    let methods = ["set_mode", "set_quality", "set_stall_deselect", "set_conn_timeout", "get_status", "get_stats", "subscribe", "unsubscribe", "get_subscription_count", "mark_critical", "", "SET_MODE", "get_status "];
    let mi = rng.usize_below(methods.len());
    let method = methods[mi];
    // params text
    let pclass = rng.below(8);
    let params: Option<String> = match pclass {
        0 | 1 | 2 => Some(match method {
            "set_mode" if rng.chance(1, 6) => format!("{{\"mode\":{}}}", Value::String(gen_text(rng))),
            "subscribe" if rng.chance(1, 6) => format!("{{\"topic\":{}}}", Value::String(gen_text(rng))),
            "unsubscribe" if rng.chance(1, 6) => format!("{{\"subscription_id\":{}}}", Value::String(gen_text(rng))),
            "set_mode" => format!("{{\"mode\":\"{}\"}}", rng.pick(&["classic", "enhanced"])),
            "set_quality" | "set_stall_deselect" => format!("{{\"enabled\":{}}}", rng.chance(1, 2)),
            "set_conn_timeout" => format!("{{\"ms\":{}}}", num_text(rng)),
            "subscribe" => format!("{{\"topic\":\"{}\"}}", rng.pick(&["stats", "priority.window", "nope"])),
            "unsubscribe" => format!("{{\"subscription_id\":\"sub-{}\"}}", rng.below(4)),
            _ => "{}".to_string(),
        }),
        3 => None,
        4 => Some(gen_value(rng, 0).to_string()),
        5 => Some(format!("{{\"mode\":{0},\"enabled\":{0},\"ms\":{0}}}", gen_value(rng, 1))),
        6 => Some(format!("{{\"ms\":{}}}", num_text(rng))),
        _ => Some("null".to_string()),
    };
    let idclass = rng.below(10);
    let id: Option<String> = match idclass {
        0 | 1 => None,
        2 => Some("null".into()),
        3 => Some(rng.below(1 << 40).to_string()),
        4 if rng.chance(1, 4) => Some(Value::String(gen_text(rng)).to_string()),
        4 => Some(format!("\"req-{}\"", rng.below(1000))),
        5 => Some("18446744073709551615".into()),
        6 => Some("-7".into()),
        7 => Some(gen_value(rng, 1).to_string()),
        8 => Some("1.25".into()),
        _ => Some(rng.below(100).to_string()),
    };
    let vclass = rng.below(12);
    let ver: Option<&str> = match vclass {
        0 => Some("\"1.0\""),
        1 => Some("2.0"),
        2 => None,
        3 => Some("\"2\""),
        4 => Some("null"),
        _ => Some("\"2.0\""),
    };
    let mut fields: Vec<String> = Vec::new();
    if let Some(v) = ver {
        fields.push(format!("\"jsonrpc\":{v}"));
    }
    match rng.below(14) {
        0 => {}
        1 => fields.push(format!("\"method\":{}", gen_value(rng, 2))),
        2 => fields.push(format!("\"method\":{}", Value::String(gen_text(rng)))),
        _ => fields.push(format!("\"method\":{}", Value::String(method.to_string()))),
    }
    if let Some(p) = params {
        fields.push(format!("\"params\":{p}"));
    }
    if let Some(i) = id {
        fields.push(format!("\"id\":{i}"));
    }
    let extra = rng.below(12);
    if extra == 0 {
        fields.push("\"extra\":{\"a\":[1,2,3]}".into());
    }
    if extra == 1 {
        // duplicate key
        let dup = *rng.pick(&["\"id\":1", "\"method\":\"get_status\"", "\"jsonrpc\":\"2.0\"", "\"params\":{}", "\"extra\":1"]);
        fields.push(dup.into());
        fields.push(dup.into());
    }
    rng.shuffle(&mut fields);
    let ws = *rng.pick(&["", "", " ", "\t", "  \r"]);
    *class = crate::prng::hash_u64s(&[mi as u64, pclass, idclass, vclass, extra.min(2)]);
    format!("{ws}{{{}}}{ws}", fields.join(if rng.chance(1, 5) { " , " } else { "," }))
}

fn gen_hostile_text(rng: &mut Rng, base: &str) -> String {
    match rng.below(10) {
        0 => {
            // byte-level mutation kept valid UTF-8 by working on chars
            let mut cs: Vec<char> = base.chars().collect();
            for _ in 0..(1 + rng.below(4)) {
                if cs.is_empty() {
                    break;
                }
                let i = rng.usize_below(cs.len());
                match rng.below(4) {
                    0 => {
                        cs.remove(i);
                    }
                    1 => cs.insert(i, *rng.pick(&['{', '}', '"', ',', ':', '[', ']', '\\', '0', 'e', ' ', '\u{0}', '\u{feff}'])),
                    2 => cs[i] = *rng.pick(&['{', '}', '"', ',', ':', 'x', '9', '-']),
                    _ => cs.truncate(i),
                }
            }
            cs.into_iter().filter(|c| *c != '\n').collect()
        }
        1 => "[".repeat(200) + &"]".repeat(200),
        2 => format!("{{\"jsonrpc\":\"2.0\",\"method\":\"get_status\",\"id\":1,\"params\":{}{}}}", "[".repeat(150), "]".repeat(150)),
        3 => format!("{{\"jsonrpc\":\"2.0\",\"method\":\"get_status\",\"id\":\"{}\"}}", "x".repeat(100_000)),
        4 if rng.chance(1, 2) => gen_text(rng).replace('\n', " "),
        4 => "not valid json".into(),
        5 => "   ".into(),
        6 if rng.chance(1, 2) => Value::String(gen_text(rng)).to_string(),
        6 => "\"just a string\"".into(),
        7 => "[\"2.0\",\"get_status\",null,1]".into(),
        8 => "{\"jsonrpc\":\"2.0\",\"method\":\"set_conn_timeout\",\"params\":{\"ms\":30000},\"id\":1}{}".into(),
        _ => "42".into(),
    }
}

// ------------------------------------------------------------------------------------------------
// lane 1: in-process differential
// ------------------------------------------------------------------------------------------------

fn snapshot_matches(cfg: &DynamicConfig, m: &Model) -> bool {
    let s = cfg.snapshot();
    s.mode.is_classic() == m.classic && s.quality_enabled == m.quality && s.stall_deselect == m.stall && s.conn_timeout_ms == m.timeout
}

pub fn run_sequence(rng: &mut Rng, rep: &mut Report) {
    let stats = SharedStats::new();
    let cw = CriticalWindow::new();
    let cfgs = [DynamicConfig::new(), DynamicConfig::new(), DynamicConfig::new()];
    let hub = SubscriptionHub::new();
    let (push_tx, _push_rx) = tokio::sync::mpsc::channel::<String>(8);
    let mut owned: Vec<String> = Vec::new();
    let mut model = Model::default();
    let n = 1 + rng.usize_below(200);
    let mut sample: Vec<String> = Vec::new();
    for _ in 0..n {
        let mut class = 0u64;
        let base = gen_line(rng, &mut class);
        let line = if rng.chance(1, 6) {
            let h = gen_hostile_text(rng, &base);
            let mut f = Fnv::new();
            f.str(&h);
            class = f.finish();
            h
        } else {
            base
        };
        rep.eval();
        rep.count("lines");
        rep.distinct(class);
        let mut m_ctx = model.clone();
        let exp = reference(&mut model, &line, false, rep);
        let mut scratch = Report::new();
        let exp_ctx = reference(&mut m_ctx, &line, true, &mut scratch);
        rep.add("subscription.methods_with_context", scratch.get("subscription.methods_with_context"));
        // the three entry points
        let r0 = std::panic::catch_unwind(std::panic::AssertUnwindSafe(|| dispatch(&cfgs[0], Some(&stats), Some(&cw), &line).map(|r| r.to_json())));
        let r1 = std::panic::catch_unwind(std::panic::AssertUnwindSafe(|| rt::block_on(async { dispatch_async(&cfgs[1], Some(&stats), Some(&cw), None, &line).await.map(|r| r.to_json()) })));
        let r2 = std::panic::catch_unwind(std::panic::AssertUnwindSafe(|| {
            rt::block_on(async {
                let mut ctx = SubscriptionContext { hub: &hub, push_tx: push_tx.clone(), owned_ids: &mut owned };
                dispatch_async(&cfgs[2], Some(&stats), Some(&cw), Some(&mut ctx), &line).await.map(|r| r.to_json())
            })
        }));
        let (Ok(r0), Ok(r1), Ok(r2)) = (r0, r1, r2) else {
            let _ = crate::runner::take_last_panic();
            rep.violation("C18.panic", format!("a dispatcher panicked on line {:?}", line.chars().take(200).collect::<String>()));
            continue;
        };
        check_response(&exp, r0.as_deref(), &line, "dispatch", rep);
        check_response(&exp, r1.as_deref(), &line, "dispatch_async(no ctx)", rep);
        check_response(&exp_ctx, r2.as_deref(), &line, "dispatch_async(ctx)", rep);
        // differential: identical answers except for subscription methods
        rep.count("differential.compared");
        let same = |a: &Option<String>, b: &Option<String>| match (a, b) {
            (None, None) => true,
            (Some(x), Some(y)) => {
                let (vx, vy): (Result<Value, _>, Result<Value, _>) = (serde_json::from_str(x), serde_json::from_str(y));
                match (vx, vy) {
                    (Ok(mut vx), Ok(mut vy)) => {
                        // get_stats carries timestamps; compare shape only
                        if let Some(r) = vx.get_mut("result")
                            && r.get("timestamp").is_some()
                        {
                            *r = Value::Null;
                        }
                        if let Some(r) = vy.get_mut("result")
                            && r.get("timestamp").is_some()
                        {
                            *r = Value::Null;
                        }
                        vx == vy || (vx.get("result").is_some() && vy.get("result").is_some() && vx["id"] == vy["id"] && x.contains("links"))
                    }
                    _ => false,
                }
            }
            _ => false,
        };
        if exp != Expect::Unspecified && !same(&r0, &r1) {
            rep.violation("C18.differential.stdin-vs-socket-entry", format!("line {:?}: dispatch answered {:?}, dispatch_async answered {:?}", line.chars().take(160).collect::<String>(), r0.as_deref().map(|s| s.chars().take(200).collect::<String>()), r1.as_deref().map(|s| s.chars().take(200).collect::<String>())));
        }
        // the context-carrying entry point legitimately differs for the subscription methods (whatever the
        // rest of the line looks like) and for lines of unspecified shape
        let names_subscription_method = line.contains("subscribe") || line.contains("get_subscription_count");
        if exp_ctx == exp && exp != Expect::Unspecified && !names_subscription_method && !same(&r0, &r2) {
            rep.violation("C18.differential.stdin-vs-socket-entry", format!("line {:?}: dispatch answered {:?}, dispatch_async with a subscription context answered {:?}", line.chars().take(160).collect::<String>(), r0.as_deref().map(|s| s.chars().take(200).collect::<String>()), r2.as_deref().map(|s| s.chars().take(200).collect::<String>())));
        }
        // effect: snapshot and a following get_status equal the model, on every entry point
        for (k, c) in cfgs.iter().enumerate() {
            if !snapshot_matches(c, &model) {
                rep.violation("C18.effect.snapshot-differs-from-model", format!("after line {:?} entry point #{k}: snapshot {:?}, model {model:?}", line.chars().take(160).collect::<String>(), c.snapshot()));
            }
        }
        let st = dispatch(&cfgs[0], Some(&stats), Some(&cw), r#"{"jsonrpc":"2.0","method":"get_status","id":"probe"}"#).map(|r| r.to_json());
        rep.count("status.compared");
        check_response(&Expect::Result(json!("probe"), Some(status_of(&model))), st.as_deref(), "get_status probe", "status-after-line", rep);
        if sample.len() < 8 {
            sample.push(format!("{} -> {:?}", line.chars().take(120).collect::<String>(), r0.as_deref().map(|s| s.chars().take(100).collect::<String>())));
        }
    }
    rep.count("sequences");
    if rep.wants_sample() {
        rep.sample(json!({"lane": "in-process differential", "lines": n, "first_lines": sample}));
    }
}

// ------------------------------------------------------------------------------------------------
// lane 2: concurrent setters / readers
// ------------------------------------------------------------------------------------------------

pub fn run_concurrent(rng: &mut Rng, rep: &mut Report) {
    let cfg = DynamicConfig::new();
    let writers = 1 + rng.usize_below(3);
    let readers = 1 + rng.usize_below(5);
    let per_writer = 2000 + rng.below(4000);
    let stop = Arc::new(AtomicBool::new(false));
    // single-writer fields: writer 0 owns the timeout (strictly increasing unique values), writer 1 the mode, writer 2 quality
    let mut handles = Vec::new();
    for w in 0..writers {
        let cfg = cfg.clone();
        handles.push(std::thread::spawn(move || {
            let mut last = 0u64;
            for k in 0..per_writer {
                match w {
                    0 => {
                        let ms = 1000 + k; // unique, increasing
                        let line = format!("{{\"jsonrpc\":\"2.0\",\"method\":\"set_conn_timeout\",\"params\":{{\"ms\":{ms}}},\"id\":{k}}}");
                        let r = dispatch(&cfg, None, None, &line).map(|r| r.to_json()).unwrap_or_default();
                        if !r.contains(&format!("\"ms\":{}", ms.clamp(1000, 60_000))) {
                            return Err(format!("set_conn_timeout {ms} answered {r}"));
                        }
                        last = ms.clamp(1000, 60_000);
                    }
                    1 => {
                        let m = if k % 2 == 0 { "classic" } else { "enhanced" };
                        let line = format!("{{\"jsonrpc\":\"2.0\",\"method\":\"set_mode\",\"params\":{{\"mode\":\"{m}\"}}}}");
                        let _ = dispatch(&cfg, None, None, &line);
                        last = k % 2;
                    }
                    _ => {
                        let line = format!("{{\"jsonrpc\":\"2.0\",\"method\":\"set_quality\",\"params\":{{\"enabled\":{}}}}}", k % 2 == 0);
                        let _ = dispatch(&cfg, None, None, &line);
                        last = k % 2;
                    }
                }
            }
            Ok((w, last))
        }));
    }
    let mut rhandles = Vec::new();
    for _ in 0..readers {
        let cfg = cfg.clone();
        let stop = stop.clone();
        rhandles.push(std::thread::spawn(move || {
            let mut reads = 0u64;
            let mut last_timeout = 0u64;
            let mut bad: Option<String> = None;
            while !stop.load(Ordering::Relaxed) {
                let s = cfg.snapshot();
                reads += 1;
                if !(1000..=60_000).contains(&s.conn_timeout_ms) {
                    bad = Some(format!("snapshot timeout {} outside [1000, 60000]", s.conn_timeout_ms));
                    break;
                }
                // writer 0 writes increasing values: a reader must never see them go backwards
                if s.conn_timeout_ms < last_timeout && s.conn_timeout_ms != 5000 {
                    bad = Some(format!("timeout went backwards {} -> {}", last_timeout, s.conn_timeout_ms));
                    break;
                }
                if s.conn_timeout_ms != 5000 {
                    last_timeout = s.conn_timeout_ms;
                }
                if reads % 64 == 0 {
                    std::thread::yield_now();
                }
            }
            (reads, bad)
        }));
    }
    let mut finals: Vec<(usize, u64)> = Vec::new();
    for h in handles {
        match h.join() {
            Ok(Ok(x)) => finals.push(x),
            Ok(Err(e)) => rep.violation("C18.concurrent.setter-response", e),
            Err(_) => rep.violation("C18.panic", "setter thread panicked".into()),
        }
    }
    stop.store(true, Ordering::Relaxed);
    for h in rhandles {
        match h.join() {
            Ok((reads, bad)) => {
                rep.add("concurrent.reads", reads);
                if let Some(b) = bad {
                    rep.violation("C18.concurrent.illegal-read", b);
                }
            }
            Err(_) => rep.violation("C18.panic", "reader thread panicked".into()),
        }
    }
    rep.add("concurrent.writes", per_writer * writers as u64);
    rep.eval();
    let s = cfg.snapshot();
    for (w, last) in finals {
        let ok = match w {
            0 => s.conn_timeout_ms == last,
            1 => s.mode.is_classic() == (last == 0),
            _ => s.quality_enabled == (last == 0),
        };
        if !ok {
            rep.violation("C18.concurrent.final-state", format!("writer {w}'s last write ({last}) is not the final state {s:?}"));
        }
    }
    rep.distinct(crate::prng::hash_u64s(&[writers as u64, readers as u64, per_writer / 500]));
}

// ------------------------------------------------------------------------------------------------
// lane 3: the production stdin listener and control socket in a child process
// ------------------------------------------------------------------------------------------------

fn vctl_path() -> std::path::PathBuf {
    let exe = std::env::current_exe().unwrap_or_default();
    exe.parent().map(|p| p.join("vctl")).unwrap_or_default()
}

fn read_json_lines<R: Read + Send + 'static>(r: R) -> std::sync::mpsc::Receiver<String> {
    let (tx, rx) = std::sync::mpsc::channel();
    std::thread::spawn(move || {
        let br = BufReader::new(r);
        for l in br.split(b'\n') {
            let Ok(l) = l else { break };
            let s = String::from_utf8_lossy(&l).to_string();
            if s.trim_start().starts_with('{') && tx.send(s).is_err() {
                break;
            }
        }
    });
    rx
}

pub fn run_process_lane(cfg: &RunCfg, rep: &mut Report) {
    let bin = vctl_path();
    if !bin.exists() {
        rep.inconclusive(format!("process lane: {} not built", bin.display()));
        return;
    }
    let mut rng = Rng::derive(cfg.seed, &[0xC18, 3]);
    let rounds = cfg.cases(4, 110);
    for round in 0..rounds {
        let sock = format!("/tmp/verif-c18-{}-{}.sock", std::process::id(), round);
        let _ = std::fs::remove_file(&sock);
        let mut child = match Command::new(&bin).arg(&sock).env("RUST_LOG", "off").stdin(Stdio::piped()).stdout(Stdio::piped()).stderr(Stdio::null()).spawn() {
            Ok(c) => c,
            Err(e) => {
                rep.inconclusive(format!("process lane: cannot start vctl: {e}"));
                return;
            }
        };
        let mut stdin = child.stdin.take().unwrap();
        let out = read_json_lines(child.stdout.take().unwrap());
        // wait for the socket
        let t0 = Instant::now();
        while !std::path::Path::new(&sock).exists() && t0.elapsed() < Duration::from_secs(10) {
            std::thread::sleep(Duration::from_millis(10));
        }
        let recv = |rx: &std::sync::mpsc::Receiver<String>| rx.recv_timeout(Duration::from_secs(5)).ok();
        let mut model = Model::default();
        // ---------------- stdin ----------------------------------------------------------------------
        let lines = 80 + rng.usize_below(60);
        let mut dead = false;
        for k in 0..lines {
            let mut class = 0;
            let hostile = rng.below(8);
            let (bytes, text): (Vec<u8>, Option<String>) = match hostile {
                0 => {
                    rep.count("process.non_utf8_lines");
                    (vec![0xff, 0xfe, b'{', 0xc3, 0x28, b'}'], None)
                }
                1 => {
                    let base = gen_line(&mut rng, &mut class);
                    let t = gen_hostile_text(&mut rng, &base);
                    (t.clone().into_bytes(), Some(t))
                }
                _ => {
                    let t = gen_line(&mut rng, &mut class);
                    (t.clone().into_bytes(), Some(t))
                }
            };
            let mut scratch = Report::new();
            let exp = match &text {
                Some(t) => reference(&mut model, t, false, &mut scratch),
                None => Expect::Error(-32700, Value::Null),
            };
            if stdin.write_all(&bytes).is_err() || stdin.write_all(b"\n").is_err() || stdin.flush().is_err() {
                rep.inconclusive("process lane: stdin pipe closed".into());
                dead = true;
                break;
            }
            rep.count("process.stdin_lines");
            rep.eval();
            // a sentinel request after each line tells us when its (possible) response must have been printed
            let sentinel = format!("{{\"jsonrpc\":\"2.0\",\"method\":\"get_status\",\"id\":\"s{k}\"}}\n");
            let _ = stdin.write_all(sentinel.as_bytes());
            let _ = stdin.flush();
            let mut got: Option<String> = None;
            let mut answered = false;
            while let Some(l) = recv(&out) {
                if l.contains(&format!("\"id\":\"s{k}\"")) {
                    answered = true;
                    check_response(&Expect::Result(json!(format!("s{k}")), Some(status_of(&model))), Some(&l), "sentinel", "stdin process", rep);
                    break;
                }
                if got.is_some() {
                    rep.violation("C18.process.more-than-one-response", format!("stdin: line {:?} produced a second response {l}", text.as_deref().map(|t| t.chars().take(120).collect::<String>())));
                }
                got = Some(l);
            }
            if !answered {
                let sig = if text.is_none() { "C18.process.stdin-dead-after-non-utf8-line" } else { "C18.process.stdin-stopped-answering" };
                rep.violation(sig, format!("stdin listener: after line #{k} ({}) a valid get_status request was not answered within 5 s", match &text { Some(t) => format!("{:?}", t.chars().take(120).collect::<String>()), None => "non-UTF-8 bytes ff fe 7b c3 28 7d".into() }));
                dead = true;
                break;
            }
            if hostile <= 1 {
                rep.count("process.answered_after_hostile_input");
            }
            if text.is_some() {
                check_response(&exp, got.as_deref(), text.as_deref().unwrap(), "stdin process", rep);
            } else if exp != Expect::Unspecified {
                check_response(&exp, got.as_deref(), "<non-UTF-8 bytes>", "stdin process", rep);
            }
        }
        // ---------------- socket ---------------------------------------------------------------------
        if !dead {
            let mut conn = UnixStream::connect(&sock).ok();
            let mut rx = conn.as_ref().and_then(|c| c.try_clone().ok()).map(read_json_lines);
            for k in 0..lines {
                let (Some(c), Some(r)) = (conn.as_mut(), rx.as_ref()) else {
                    rep.inconclusive("process lane: cannot connect to the control socket".into());
                    break;
                };
                let mut class = 0;
                let hostile = rng.below(8);
                let (bytes, text): (Vec<u8>, Option<String>) = match hostile {
                    0 => {
                        rep.count("process.non_utf8_lines");
                        (vec![0xff, 0xfe, b'{', 0xc3, 0x28, b'}'], None)
                    }
                    1 => {
                        let base = gen_line(&mut rng, &mut class);
                    let t = gen_hostile_text(&mut rng, &base);
                        (t.clone().into_bytes(), Some(t))
                    }
                    _ => {
                        let t = gen_line(&mut rng, &mut class);
                        (t.clone().into_bytes(), Some(t))
                    }
                };
                let mut scratch = Report::new();
                let exp = match &text {
                    Some(t) => reference(&mut model, t, true, &mut scratch),
                    None => Expect::Error(-32700, Value::Null),
                };
                let sentinel = format!("{{\"jsonrpc\":\"2.0\",\"method\":\"get_status\",\"id\":\"k{k}\"}}\n");
                let wrote = c.write_all(&bytes).is_ok() && c.write_all(b"\n").is_ok() && c.write_all(sentinel.as_bytes()).is_ok();
                rep.count("process.socket_lines");
                rep.eval();
                let mut got: Option<String> = None;
                let mut answered = false;
                if wrote {
                    while let Some(l) = recv(r) {
                        if l.contains(&format!("\"id\":\"k{k}\"")) {
                            answered = true;
                            check_response(&Expect::Result(json!(format!("k{k}")), Some(status_of(&model))), Some(&l), "sentinel", "socket process", rep);
                            break;
                        }
                        if l.contains(".update") {
                            continue; // pushed event of a subscription made by a generated line
                        }
                        got = Some(l);
                    }
                }
                if !answered {
                    // the socket entry point may drop THIS connection; a new connection must be served
                    conn = UnixStream::connect(&sock).ok();
                    rx = conn.as_ref().and_then(|c| c.try_clone().ok()).map(read_json_lines);
                    let ok = match (conn.as_mut(), rx.as_ref()) {
                        (Some(c), Some(r)) => c.write_all(sentinel.as_bytes()).is_ok() && recv(r).is_some_and(|l| l.contains(&format!("\"id\":\"k{k}\""))),
                        _ => false,
                    };
                    if !ok {
                        rep.violation("C18.process.socket-stopped-answering", format!("control socket: after line #{k} a valid request on a fresh connection was not answered"));
                        break;
                    }
                    let sig = if text.is_none() { "C18.process.socket-connection-dropped-on-non-utf8-line" } else { "C18.process.socket-connection-dropped" };
                    rep.violation(sig, format!("control socket: line #{k} ({}) made the server drop the connection instead of answering (the stdin entry point answers such a line)", match &text { Some(t) => format!("{:?}", t.chars().take(120).collect::<String>()), None => "non-UTF-8 bytes".into() }));
                    continue;
                }
                if hostile <= 1 {
                    rep.count("process.answered_after_hostile_input");
                }
                match &text {
                    Some(t) => check_response(&exp, got.as_deref(), t, "socket process", rep),
                    None => check_response(&exp, got.as_deref(), "<non-UTF-8 bytes>", "socket process", rep),
                }
            }
        }
        drop(stdin);
        let _ = child.kill();
        let _ = child.wait();
        let _ = std::fs::remove_file(&sock);
    }
    // ---------------- socket: requests split across writes while subscription pushes interleave ----------------
    // The connection holds a "stats" subscription and the process publishes every millisecond; each request is
    // written in two parts a few milliseconds apart, so the handler's select! is woken by pushes while a line
    // is half-read. The answer must be the one the stdin entry point gives.
    let sock = format!("/tmp/verif-c18-{}-split.sock", std::process::id());
    let _ = std::fs::remove_file(&sock);
    let Ok(mut child) = Command::new(&bin).arg(&sock).arg("1").env("RUST_LOG", "off").stdin(Stdio::piped()).stdout(Stdio::null()).stderr(Stdio::null()).spawn() else {
        rep.inconclusive("process lane: cannot start vctl for the split-write lane".into());
        return;
    };
    let t0 = Instant::now();
    while !std::path::Path::new(&sock).exists() && t0.elapsed() < Duration::from_secs(10) {
        std::thread::sleep(Duration::from_millis(10));
    }
    if let Ok(mut c) = UnixStream::connect(&sock) {
        let rx = c.try_clone().ok().map(read_json_lines);
        let _ = c.write_all(b"{\"jsonrpc\":\"2.0\",\"method\":\"subscribe\",\"params\":{\"topic\":\"stats\"},\"id\":\"sub\"}\n");
        let mut model = Model::default();
        let n = cfg.cases(120, 1500);
        if let Some(rx) = rx {
            let recv_resp = |want_id: &str| -> Option<String> {
                let deadline = Instant::now() + Duration::from_secs(5);
                while Instant::now() < deadline {
                    match rx.recv_timeout(Duration::from_millis(200)) {
                        Ok(l) if l.contains(".update") => continue,
                        Ok(l) if l.contains(want_id) || l.contains("\"id\":null") => return Some(l),
                        Ok(_) => continue,
                        Err(_) => continue,
                    }
                }
                None
            };
            let _ = recv_resp("\"id\":\"sub\"");
            for k in 0..n {
                let ms = 1000 + rng.below(59_000);
                let line = match k % 3 {
                    0 => format!("{{\"jsonrpc\":\"2.0\",\"method\":\"set_conn_timeout\",\"params\":{{\"ms\":{ms}}},\"id\":\"q{k}\"}}"),
                    1 => format!("{{\"jsonrpc\":\"2.0\",\"method\":\"set_mode\",\"params\":{{\"mode\":\"{}\"}},\"id\":\"q{k}\"}}", if rng.chance(1, 2) { "classic" } else { "enhanced" }),
                    _ => format!("{{\"jsonrpc\":\"2.0\",\"method\":\"get_status\",\"id\":\"q{k}\"}}"),
                };
                let mut scratch = Report::new();
                let exp = reference(&mut model, &line, true, &mut scratch);
                let cut = 1 + rng.usize_below(line.len() - 1);
                let ok = c.write_all(&line.as_bytes()[..cut]).is_ok();
                std::thread::sleep(Duration::from_millis(2 + rng.below(4)));
                let ok = ok && c.write_all(&line.as_bytes()[cut..]).is_ok() && c.write_all(b"\n").is_ok();
                rep.count("process.socket_split_lines_with_pushes");
                rep.eval();
                if !ok {
                    rep.violation("C18.process.socket-connection-dropped", format!("split-write lane: the server closed the connection at request #{k}"));
                    break;
                }
                let got = recv_resp(&format!("\"id\":\"q{k}\""));
                check_response(&exp, got.as_deref(), &line, "socket process (request split across two writes, pushes interleaving)", rep);
                if got.is_none() {
                    break;
                }
            }
        }
    } else {
        rep.inconclusive("process lane: cannot connect to the split-write control socket".into());
    }
    let _ = child.kill();
    let _ = child.wait();
    let _ = std::fs::remove_file(&sock);
}

pub fn run(cfg: &RunCfg) -> Report {
    let cases = cfg.cases(12_000, 480_000);
    let mut rep = run_cases(cfg, 0, cases, Duration::from_secs(3600), |_c, rng, rep| run_sequence(rng, rep));
    let cc = cfg.cases(24, 600);
    // the concurrent lane spawns its own threads: run its cases two at a time
    let mut c2 = cfg.clone();
    c2.threads = 2;
    rep.merge(run_cases(&c2, 1, cc, Duration::from_secs(3600), |_c, rng, rep| run_concurrent(rng, rep)));
    // the process lane has real-time deadlines (5 s per answer): not meaningful under a 10-50x tool slow-down
    if cfg.replay_case.is_none() && cfg.lane.is_none() {
        run_process_lane(cfg, &mut rep);
    }
    // E6: "takes effect" in the production event loop: set_conn_timeout / set_mode on the subscribed control
    // connection of a live sender carrying traffic, then a black-hole that must be detected under the NEW timeout
    crate::live::prop_lane(cfg, &mut rep, "C18", &[(crate::live::Scenario::Control, 1)]);
    rep
}
