//! C12 — the stall guard is a routing penalty only; off means baseline.
//!
//! (a) before/after fingerprint equality of every link's liveness + accounting
//!     state around every real `select_connection_idx` call;
//! (b) twin run: link set A lives through guard-ON selects that engage latches and
//!     pulls, an identically built set B through the same selects with the guard
//!     OFF; then the guard is switched off on A and every further decision must
//!     equal B's, with no stall flag left on A.

use std::time::Duration;

use srtla_core::config_snapshot::ConfigSnapshot;
use srtla_core::connection::SrtlaConnection;
use srtla_core::selection::select_connection_idx;

use crate::linkgen::{self, GenOpts};
use crate::prng::{Fnv, Rng};
use crate::report::{PropSpec, Report, RunCfg};
use crate::runner::run_cases;

pub const SPEC: PropSpec = PropSpec {
    id: "C12",
    level: "exploration",
    rule: "twin cases: two link sets built by replaying the same real construction ops (linkgen specs, 1-4 links); set A then sees 1-12 guard-ON selects at evolving times with evolving receive / proof stamps and backlog (engaging latches and silence pulls), set B the same calls with the guard OFF; then >= 50 ms later the guard is off on both and 2-20 further selects, interleaved with identical state changes (sends, earned ACKs, NAKs, inbound bytes, clock advances, guard toggles on A only before the final off), must return identical indices, and after every guard-off select no link of A may report stall_latched() / is_stall_gated(). Around EVERY select (both sets, guard on or off) the fingerprint of connected, receive / send / keepalive / proof stamps, window, in-flight, packet log, high-water mark, all CongestionControl fields, phase, ReconnectionState, RTT tracker, bitrate counters, queue depth, weak / loss / cc flags must be unchanged. Non-trivial = a latch or pull engaged on A before the comparison; distinct = distinct (per-link latched/gated bit vectors at switch-off, mode, n, result sequence) hashes.",
    assumptions: &[
        "the comparison starts >= 50 ms after the last history select so that the 50 ms quality cache (not refreshed for links skipped while gated) is recomputed on both sets; a difference confined to that cache interval is not considered stall history",
        "guard-private fields, conn_timeout_ms (configuration refresh) and the quality cache are outside the fingerprint, as the property states",
    ],
    floors: &[
        ("select.calls_fingerprinted", 100_000, 4_000_000),
        ("select.calls_with_gate_or_latch", 10_000, 400_000),
        ("twin.comparisons", 20_000, 800_000),
        ("twin.comparisons_after_latch", 2_000, 80_000),
        ("twin.cases_with_latch_at_switch_off", 1_000, 40_000),
        ("twin.toggle_on_off_on", 500, 20_000),
    ],
};

pub fn fingerprint(c: &SrtlaConnection) -> u64 {
    let mut log: Vec<(i32, u64)> = c.packet_log.iter().map(|(k, v)| (*k, *v)).collect();
    log.sort_unstable();
    let s = format!(
        "{}|{}|{}|{:?}|{:?}|{:?}|{}|{}|{}|{:?}|{}|{:?}|{:?}|{:?}|{:?}|{:?}|{}|{}|{}|{}|{}",
        c.conn_id,
        c.label,
        c.connected,
        c.last_received,
        c.last_sent,
        c.last_keepalive_sent,
        c.last_ack_or_rtt_sample_ms,
        c.window,
        c.in_flight_packets,
        log,
        c.highest_acked_seq,
        c.congestion,
        c.phase,
        c.reconnection,
        c.rtt,
        c.bitrate,
        c.batch_sender.queued_count(),
        c.weak,
        c.loss_degraded,
        c.cc_target_bps,
        c.cc_backing_off,
    );
    let mut f = Fnv::new();
    f.str(&s);
    f.finish()
}

/// select with the before == after check; returns the decision.
fn checked_select(conns: &mut [SrtlaConnection], last: Option<usize>, now: u64, cfg: &ConfigSnapshot, rep: &mut Report, who: &str) -> Option<usize> {
    let before: Vec<u64> = conns.iter().map(fingerprint).collect();
    let r = select_connection_idx(conns, last, now, cfg);
    rep.eval();
    rep.count("select.calls_fingerprinted");
    if conns.iter().any(|c| c.stall_latched() || c.is_stall_gated()) {
        rep.count("select.calls_with_gate_or_latch");
    }
    for (i, c) in conns.iter().enumerate() {
        if fingerprint(c) != before[i] {
            rep.violation(
                "C12.select.mutated-liveness-or-accounting",
                format!("select at {now} (set {who}, guard {}) changed liveness/accounting state of link {i}: now connected={} window={} in_flight={} last_received={:?} last_sent={:?} proof={} phase={:?} reconnection={:?}", cfg.stall_deselect, c.connected, c.window, c.in_flight_packets, c.last_received, c.last_sent, c.last_ack_or_rtt_sample_ms, c.phase, c.reconnection),
            );
        }
    }
    r
}

#[derive(Clone, Debug)]
enum Change {
    Advance(u64),
    Send { link: usize, n: u32 },
    EarnedAck { link: usize },
    Nak { link: usize },
    Heard { link: usize },
    Proof { link: usize },
    CumAck,
    /// REG_ERR from the receiver (shell effect: connected = false, receive stamp cleared, no core reset)
    RegErr { link: usize },
    /// REG3 on a disconnected link
    Reg3 { link: usize },
}

fn apply(conns: &mut [SrtlaConnection], ch: &Change, now: &mut u64, seq: &mut i32, classic: bool) {
    match ch {
        Change::Advance(d) => *now += d,
        Change::Send { link, n } => {
            if let Some(c) = conns.get_mut(*link) {
                for _ in 0..*n {
                    *seq += 1;
                    c.register_packet(*seq, *now);
                }
            }
        }
        Change::EarnedAck { link } => {
            if let Some(c) = conns.get_mut(*link)
                && let Some(s) = c.packet_log.keys().copied().min()
            {
                c.handle_srtla_ack_specific(s, classic, *now);
            }
        }
        Change::Nak { link } => {
            if let Some(c) = conns.get_mut(*link)
                && let Some(s) = c.packet_log.keys().copied().max()
            {
                c.handle_nak(s, *now);
            }
        }
        Change::Heard { link } => {
            if let Some(c) = conns.get_mut(*link)
                && c.connected
            {
                c.last_received = Some(*now);
            }
        }
        Change::Proof { link } => {
            if let Some(c) = conns.get_mut(*link)
                && c.connected
            {
                c.last_ack_or_rtt_sample_ms = *now;
                c.last_received = Some(*now);
            }
        }
        Change::RegErr { link } => {
            // what the shell does on REG_ERR: no core reset, whatever the guard holds on the link stays in place
            if let Some(c) = conns.get_mut(*link) {
                c.connected = false;
                c.last_received = None;
            }
        }
        Change::Reg3 { link } => {
            // what the shell does on REG3
            if let Some(c) = conns.get_mut(*link)
                && !c.connected
            {
                c.clear_pre_registration_state(*now);
                c.connected = true;
                c.last_received = Some(*now);
            }
        }
        Change::CumAck => {
            let a = *seq - 3;
            for c in conns.iter_mut() {
                c.handle_srt_ack(a, *now);
            }
        }
    }
}

fn gen_change(rng: &mut Rng, n: usize) -> Change {
    let link = rng.usize_below(n);
    match rng.below(12) {
        0..=2 => Change::Advance(*rng.pick(&[0u64, 1, 15, 49, 50, 250, 999, 1000, 1001, 3000, 6000])),
        3..=4 => Change::Send { link, n: 1 + rng.below(40) as u32 },
        5 => Change::EarnedAck { link },
        6 => Change::Nak { link },
        7..=8 => Change::Heard { link },
        9 => Change::Proof { link },
        10 if rng.chance(1, 3) => Change::RegErr { link },
        10 if rng.chance(1, 2) => Change::Reg3 { link },
        _ => Change::CumAck,
    }
}

pub fn run_case(rng: &mut Rng, rep: &mut Report) {
    let opts = GenOpts { no_extreme: rng.chance(1, 2), ..Default::default() };
    let mut cfg = linkgen::gen_config(rng, &opts);
    cfg.stall_deselect = true;
    // thresholds that actually engage
    if rng.chance(2, 3) {
        cfg.stall_min_in_flight = *rng.pick(&[0, 1, 4, 32]);
        cfg.stall_ack_stale_ms = *rng.pick(&[500, 1000, 3000]);
    }
    let classic = cfg.mode.is_classic();
    let n = 1 + rng.usize_below(4);
    let t0 = 10_000_000 + rng.below(1_000_000);
    let mut specs = Vec::new();
    for _ in 0..n {
        // mostly usable links so that the guard has something to act on
        let want = if rng.chance(4, 5) { Some(true) } else { None };
        let mut sp = linkgen::gen_link_spec(rng, &cfg, &opts, want);
        if rng.chance(1, 2) {
            sp.proof_age = Some(*rng.pick(&[0u64, 500, 999, 1000, 3000, 3001, 9000]));
            sp.inflight_real = 33 + rng.below(40) as u32;
        }
        specs.push(sp);
    }
    let mut a: Vec<SrtlaConnection> = specs.iter().enumerate().map(|(i, s)| linkgen::build_link(i, s, t0)).collect();
    let mut b: Vec<SrtlaConnection> = specs.iter().enumerate().map(|(i, s)| linkgen::build_link(i, s, t0)).collect();
    for (x, y) in a.iter().zip(b.iter()) {
        if fingerprint(x) != fingerprint(y) {
            rep.inconclusive("twin construction not deterministic".into());
            return;
        }
    }
    let mut now = t0;
    let mut seq_a = 5_000_000;
    let mut seq_b = 5_000_000;
    let mut last: Option<usize> = None;
    let mut cfg_off = cfg;
    cfg_off.stall_deselect = false;

    // phase 1: history (A guard on — with optional off/on toggles —, B guard off)
    let steps = 1 + rng.usize_below(12);
    let mut engaged = false;
    let mut toggled_off = false;
    let mut toggled_back = false;
    for _ in 0..steps {
        let k = rng.usize_below(4);
        for _ in 0..k {
            let ch = gen_change(rng, n);
            let mut na = now;
            apply(&mut a, &ch, &mut na, &mut seq_a, classic);
            apply(&mut b, &ch, &mut now, &mut seq_b, classic);
            rep.t(|| format!("hist change {ch:?} -> now {now}"));
        }
        let guard_a = if rng.chance(1, 8) {
            toggled_off = true;
            false
        } else {
            if toggled_off {
                toggled_back = true;
            }
            true
        };
        let ca = if guard_a { cfg } else { cfg_off };
        let ra = checked_select(&mut a, last, now, &ca, rep, "A");
        let _rb = checked_select(&mut b, last, now, &cfg_off, rep, "B");
        if a.iter().any(|c| c.stall_latched() || c.is_stall_gated()) {
            engaged = true;
        }
        rep.t(|| format!("hist select now={now} guardA={guard_a} -> A {ra:?}; A latched {:?} gated {:?}", a.iter().map(|c| c.stall_latched()).collect::<Vec<_>>(), a.iter().map(|c| c.is_stall_gated()).collect::<Vec<_>>()));
        last = ra.or(last);
    }
    if toggled_back {
        rep.count("twin.toggle_on_off_on");
    }
    let latched_at_off = a.iter().any(|c| c.stall_latched() || c.is_stall_gated());
    if latched_at_off {
        rep.count("twin.cases_with_latch_at_switch_off");
    }
    let mut sig = Fnv::new();
    sig.u64(classic as u64);
    sig.u64(n as u64);
    for c in a.iter() {
        sig.u64(c.stall_latched() as u64 | (c.is_stall_gated() as u64) << 1);
    }

    // phase 2: guard off on both; decisions must agree
    now += 50 + rng.below(200);
    let calls = 2 + rng.usize_below(19);
    let mut last_cmp = last;
    for j in 0..calls {
        let k = rng.usize_below(3);
        for _ in 0..k {
            let mut ch = gen_change(rng, n);
            if let Change::Advance(d) = ch
                && d == 0
            {
                ch = Change::Advance(1);
            }
            let mut na = now;
            apply(&mut a, &ch, &mut na, &mut seq_a, classic);
            apply(&mut b, &ch, &mut now, &mut seq_b, classic);
            rep.t(|| format!("cmp change {ch:?} -> now {now}"));
        }
        let ra = checked_select(&mut a, last_cmp, now, &cfg_off, rep, "A");
        let rb = checked_select(&mut b, last_cmp, now, &cfg_off, rep, "B");
        rep.count("twin.comparisons");
        if engaged {
            rep.count("twin.comparisons_after_latch");
        }
        rep.t(|| format!("cmp select #{j} now={now} last={last_cmp:?} -> A {ra:?} B {rb:?}"));
        if ra != rb {
            rep.violation(
                "C12.guard-off.decision-differs-from-history-free-twin",
                format!("guard off at {now}: set A (with stall history, latched/gated at switch-off: {latched_at_off}) chose {ra:?}, history-free twin chose {rb:?}; last={last_cmp:?} cfg={cfg_off:?}"),
            );
        }
        for (i, c) in a.iter().enumerate() {
            if c.stall_latched() || c.is_stall_gated() {
                rep.violation(
                    "C12.guard-off.flag-left",
                    format!("after a guard-off select at {now} link {i} still reports stall_latched={} is_stall_gated={}", c.stall_latched(), c.is_stall_gated()),
                );
            }
        }
        sig.u64(ra.map(|x| x as u64 + 1).unwrap_or(0));
        last_cmp = ra.or(last_cmp);
    }
    if engaged {
        rep.distinct(sig.finish());
    }
    if rep.wants_sample() && engaged {
        rep.sample(serde_json::json!({
            "links": specs.iter().map(|s| format!("{s:?}")).collect::<Vec<_>>(),
            "config": format!("{cfg:?}"),
            "history_selects": steps,
            "comparison_selects": calls,
            "latched_or_gated_at_switch_off": latched_at_off,
        }));
    }
}

pub fn run(cfg: &RunCfg) -> Report {
    let cases = cfg.cases(30_000, 1_000_000);
    run_cases(cfg, 0, cases, Duration::from_secs(3600), |_c, rng, rep| run_case(rng, rep))
}
