//! C20 — telemetry subscriptions never block the data plane and stay ordered.
//!
//! E5: a seeded schedule-fuzzing executor polls boxed futures built from the REAL
//! `SubscriptionHub` methods one at a time in PRNG / PCT-style order (every Pending is
//! a scheduling point), logging call / return events at the task boundary; an offline
//! checker applies N1..N6. Real-runtime lanes: the same programs on the multi-thread
//! tokio runtime, a paused-clock N1 lane, and the production control socket in a child
//! process with a never-reading and an abruptly disconnecting client.

use std::collections::{HashMap, HashSet};
use std::future::Future;
use std::io::{BufRead, BufReader, Write};
use std::os::unix::net::UnixStream;
use std::pin::Pin;
use std::process::{Command, Stdio};
use std::sync::atomic::{AtomicU64, Ordering};
use std::sync::{Arc, Mutex};
use std::task::{Context, Poll, Waker};
use std::time::{Duration, Instant};

use serde_json::{Value, json};
use srtla_send::subscriptions::SubscriptionHub;
use tokio::sync::mpsc;

use crate::prng::{Fnv, Rng};
use crate::report::{PropSpec, Report, RunCfg};
use crate::runner::run_cases;

pub const SPEC: PropSpec = PropSpec {
    id: "C20",
    level: "exploration",
    rule: "E5 schedules: 2-4 subscriber API tasks (subscribe, yields, maybe unsubscribe), their receiver tasks (recv n times, maybe drop the receiver), 1-2 publishers with unique (publisher, counter) payloads and a len() caller, all built from the real SubscriptionHub futures and polled one at a time by a seeded executor (uniform random order, or PCT-style priorities with 1-3 change points, spurious polls included); channel capacities 1/2/8/128; at a random point all receiver tasks are frozen (never polled again) and only hub-API tasks run in rounds. Offline checker over the call/return log: N1 every publish completes within 2 x (#hub-API tasks) + 2 rounds with all receivers frozen, and no run stalls with a publisher pending; N2 every received line's method is <topic>.update of the subscriber's topic; N3 params.subscription_id is the id returned to that subscriber, ids pairwise distinct; N4 per subscriber and publisher the counters strictly increase, no line twice; N5 nothing published (call event) after an unsubscribe returned is received by that subscription, and - physically, on the multi-thread runtime - nothing lands in a subscriber's channel after its unsubscribe() returned and the channel was drained; N6 after final publishes the hub holds exactly the live subscriptions (closed receivers pruned, unsubscribed removed). Real-runtime lanes: the same programs on the 4-worker tokio runtime (N2-N5), a paused-clock lane (publish under a virtual 10 s time-out with full / closed channels), and the production control socket with a subscriber that never reads, one that disconnects abruptly and a well-behaved one that must keep receiving ordered events. Non-trivial = schedule with a Full drop, a Closed prune, or an unsubscribe / subscribe racing a publish; distinct = distinct hashes of the poll sequence (task kind per step). E6 live lane (12 sessions quick / 96 thorough; DESIGN.md 9.1): against the production sender process carrying client traffic, a control-socket client takes 60 stats subscriptions and never reads a byte while another subscribes and disconnects abruptly; for 8 sender ticks the reading subscriber must keep receiving stats pushes (no 15 s gap while the harness loop itself never stalled), get_subscription_count must answer 61, and 3 ticks after the stalled client left it must answer 1. Prune-race lane (multi-thread runtime): the clean-up unsubscribe of a subscription whose receiver is already gone is issued while a long publish (4-43 permanently full co-subscribers, up to 60 kB payload) holds the hub, so that it lands between the publish's fan-out and prune passes; after all co-subscribers left and the last subscriber closed, one publish must leave the hub empty.",
    assumptions: &[
        "interleavings are sampled (uniform + PCT-style), not enumerated; on the single-threaded E5 executor every hub call completes within one poll (its only await is the uncontended mutex), so E5 explores interleavings between operations and the frozen-receiver phase, while overlaps INSIDE an operation (unsubscribe / subscribe racing a publish) come from the multi-thread runtime lane",
        "a publisher may wait for another hub-API task that was handed the fair mutex and has not been polled yet; it may never need a receiver task to run",
            "race.unsubscribe_during_publish / race.subscribe_during_publish (call/return overlaps on the multi-thread runtime) are reported but are not coverage floors: they depend on the parallelism the machine grants and were once observed at 0 under contention; the lane keeps adding rounds (up to 8x, 90 s / 700 s) to reach 110 / 4010 of each",
    ],
    floors: &[
        ("schedules", 20_000, 800_000),
        ("polls", 1_000_000, 40_000_000),
        ("publish.completed", 100_000, 4_000_000),
        ("publish.completed_with_receivers_frozen", 20_000, 800_000),
        ("event.received", 100_000, 4_000_000),
        ("event.dropped_full_channel", 2_000, 80_000),
        ("prune.closed_receiver", 2_000, 80_000),
        ("N5.checked_after_unsubscribe", 2_000, 80_000),
        ("N5.physical_unsubscribe_rounds", 300, 4_000),
        ("N6.prune_race_rounds", 1_000, 20_000),
        ("live.C20.stalled_subscriber_phases_survived", 8, 64),
        ("live.C20.cleanup_checked", 8, 64),
        ("N6.final_len_checked", 20_000, 800_000),
        ("runtime.operations", 20_000, 600_000),
        ("paused_clock.publishes", 2_000, 50_000),
        ("socket.events_seen_by_good_client", 50, 2_000),
    ],
};

// ------------------------------------------------------------------------------------------------
// event log (task boundary)
// ------------------------------------------------------------------------------------------------

#[derive(Clone, Debug)]
enum Ev {
    SubCall { task: usize, topic: &'static str },
    SubRet { task: usize, id: String },
    UnsubCall { task: usize },
    UnsubRet { task: usize, removed: bool },
    PubCall { task: usize, topic: &'static str, p: u64, n: u64 },
    PubRet { task: usize, p: u64, n: u64 },
    Recv { sub: usize, line: String },
    RxDropped { sub: usize },
    Len { n: usize },
}

#[derive(Default)]
struct Log {
    step: AtomicU64,
    ev: Mutex<Vec<(u64, Ev)>>,
}

impl Log {
    fn push(&self, e: Ev) {
        let s = self.step.fetch_add(1, Ordering::SeqCst);
        self.ev.lock().unwrap().push((s, e));
    }
}

struct YieldNow(bool);
impl Future for YieldNow {
    type Output = ();
    fn poll(mut self: Pin<&mut Self>, cx: &mut Context<'_>) -> Poll<()> {
        if self.0 {
            Poll::Ready(())
        } else {
            self.0 = true;
            cx.waker().wake_by_ref();
            Poll::Pending
        }
    }
}

type Slot = Arc<Mutex<Option<mpsc::Receiver<String>>>>;
type BoxFut = Pin<Box<dyn Future<Output = ()> + Send>>;

#[derive(Clone, Copy, PartialEq, Eq, Debug)]
enum Kind {
    SubApi,
    Receiver,
    Publisher,
    LenCaller,
}

#[derive(Clone, Debug)]
struct SubPlan {
    topic: &'static str,
    cap: usize,
    yields_before_unsub: u32,
    unsub: bool,
    recv_n: u32,
    drop_rx: bool,
}

#[derive(Clone, Debug)]
struct Plan {
    subs: Vec<SubPlan>,
    pubs: Vec<(&'static str, u64, u32)>, // topic, count, yield-every
    len_calls: u32,
}

fn gen_plan(rng: &mut Rng) -> Plan {
    let topics = ["stats", "priority.window"];
    let ns = 2 + rng.usize_below(3);
    let subs = (0..ns)
        .map(|_| {
            let tn = if rng.chance(2, 3) { 1 } else { 2 };
            SubPlan { topic: topics[rng.usize_below(tn)], cap: *rng.pick(&[1usize, 1, 2, 8, 128]), yields_before_unsub: rng.below(12) as u32, unsub: rng.chance(1, 2), recv_n: *rng.pick(&[0u32, 1, 3, 10, 40]), drop_rx: rng.chance(1, 3) }
        })
        .collect();
    let np = 1 + rng.usize_below(2);
    let pubs = (0..np).map(|i| (topics[if i == 0 { 0 } else { rng.usize_below(2) }], 3 + rng.below(14), rng.below(3) as u32)).collect();
    Plan { subs, pubs, len_calls: rng.below(4) as u32 }
}

fn build_tasks(plan: &Plan, hub: &SubscriptionHub, log: &Arc<Log>, keep: &mut Vec<Slot>) -> Vec<(Kind, BoxFut)> {
    let mut out: Vec<(Kind, BoxFut)> = Vec::new();
    for (i, sp) in plan.subs.iter().enumerate() {
        let slot: Slot = Arc::new(Mutex::new(None));
        keep.push(slot.clone());
        let (hub1, log1, sp1, slot1) = (hub.clone(), log.clone(), sp.clone(), slot.clone());
        out.push((
            Kind::SubApi,
            Box::pin(async move {
                let (tx, rx) = mpsc::channel::<String>(sp1.cap);
                log1.push(Ev::SubCall { task: i, topic: sp1.topic });
                let id = hub1.subscribe(sp1.topic, tx).await;
                log1.push(Ev::SubRet { task: i, id: id.clone() });
                *slot1.lock().unwrap() = Some(rx);
                for _ in 0..sp1.yields_before_unsub {
                    YieldNow(false).await;
                }
                if sp1.unsub {
                    log1.push(Ev::UnsubCall { task: i });
                    let removed = hub1.unsubscribe(&id).await;
                    log1.push(Ev::UnsubRet { task: i, removed });
                }
            }),
        ));
        let (log2, sp2) = (log.clone(), sp.clone());
        out.push((
            Kind::Receiver,
            Box::pin(async move {
                let mut rx = loop {
                    if let Some(rx) = slot.lock().unwrap().take() {
                        break rx;
                    }
                    YieldNow(false).await;
                };
                for _ in 0..sp2.recv_n {
                    match rx.recv().await {
                        Some(line) => log2.push(Ev::Recv { sub: i, line }),
                        None => break,
                    }
                }
                if sp2.drop_rx {
                    drop(rx);
                    log2.push(Ev::RxDropped { sub: i });
                } else {
                    // keep the channel open (a connected but idle / slow client)
                    *slot.lock().unwrap() = Some(rx);
                }
            }),
        ));
    }
    for (pi, (topic, count, yield_every)) in plan.pubs.iter().cloned().enumerate() {
        let (hub1, log1) = (hub.clone(), log.clone());
        let task = 100 + pi;
        out.push((
            Kind::Publisher,
            Box::pin(async move {
                for n in 0..count {
                    log1.push(Ev::PubCall { task, topic, p: pi as u64, n });
                    hub1.publish(topic, json!({"pub": pi, "n": n})).await;
                    log1.push(Ev::PubRet { task, p: pi as u64, n });
                    if yield_every > 0 && n % yield_every as u64 == 0 {
                        YieldNow(false).await;
                    }
                }
            }),
        ));
    }
    if plan.len_calls > 0 {
        let (hub1, log1, k) = (hub.clone(), log.clone(), plan.len_calls);
        out.push((
            Kind::LenCaller,
            Box::pin(async move {
                for _ in 0..k {
                    let n = hub1.len().await;
                    log1.push(Ev::Len { n });
                    YieldNow(false).await;
                }
            }),
        ));
    }
    out
}

// ------------------------------------------------------------------------------------------------
// offline checker (N2..N6 over the log)
// ------------------------------------------------------------------------------------------------

fn check_log(plan: &Plan, log: &[(u64, Ev)], final_len: Option<usize>, rep: &mut Report, who: &str) {
    let mut ids: HashMap<usize, String> = HashMap::new();
    let mut sub_ret_step: HashMap<usize, u64> = HashMap::new();
    let mut unsub_ret_step: HashMap<usize, u64> = HashMap::new();
    let mut unsub_call_step: HashMap<usize, u64> = HashMap::new();
    let mut sub_call_step: HashMap<usize, u64> = HashMap::new();
    let mut pub_call: HashMap<(u64, u64), (u64, &'static str)> = HashMap::new();
    let mut pub_ret: HashMap<(u64, u64), u64> = HashMap::new();
    let mut dropped: HashSet<usize> = HashSet::new();
    let mut unsubscribed: HashSet<usize> = HashSet::new();
    for (s, e) in log {
        match e {
            Ev::SubCall { task, .. } => {
                sub_call_step.insert(*task, *s);
            }
            Ev::SubRet { task, id } => {
                ids.insert(*task, id.clone());
                sub_ret_step.insert(*task, *s);
            }
            Ev::UnsubCall { task } => {
                unsub_call_step.insert(*task, *s);
            }
            Ev::UnsubRet { task, removed } => {
                unsub_ret_step.insert(*task, *s);
                unsubscribed.insert(*task);
                let _ = removed;
            }
            Ev::PubCall { topic, p, n, .. } => {
                pub_call.insert((*p, *n), (*s, topic));
            }
            Ev::PubRet { p, n, .. } => {
                pub_ret.insert((*p, *n), *s);
                rep.count("publish.completed");
            }
            Ev::RxDropped { sub } => {
                dropped.insert(*sub);
            }
            _ => {}
        }
    }
    // N3: ids pairwise distinct
    let mut seen: HashSet<&String> = HashSet::new();
    for id in ids.values() {
        rep.eval();
        if !seen.insert(id) {
            rep.violation("C20.N3.duplicate-subscription-id", format!("{who}: subscription id {id} was handed out twice"));
        }
    }
    // races (coverage): an unsubscribe / subscribe call that overlaps a publish in flight
    for ((p, n), (cs, _)) in pub_call.iter() {
        let rs = pub_ret.get(&(*p, *n)).copied().unwrap_or(u64::MAX);
        if unsub_call_step.iter().any(|(t, uc)| unsub_ret_step.get(t).is_some_and(|ur| *uc < rs && *ur > *cs)) {
            rep.count("race.unsubscribe_during_publish");
        }
        if sub_call_step.iter().any(|(t, sc)| sub_ret_step.get(t).is_some_and(|sr| *sc < rs && *sr > *cs)) {
            rep.count("race.subscribe_during_publish");
        }
    }
    // received lines
    let mut last_n: HashMap<(usize, u64), u64> = HashMap::new();
    let mut received: HashMap<usize, u64> = HashMap::new();
    for (s, e) in log {
        let Ev::Recv { sub, line } = e else { continue };
        rep.eval();
        rep.count("event.received");
        *received.entry(*sub).or_default() += 1;
        let sp = &plan.subs[*sub];
        let Ok(v) = serde_json::from_str::<Value>(line) else {
            rep.violation("C20.N2.line-not-json", format!("{who}: subscriber {sub} received {line:?}"));
            continue;
        };
        if v["method"] != json!(format!("{}.update", sp.topic)) || v["jsonrpc"] != json!("2.0") {
            rep.violation("C20.N2.wrong-topic", format!("{who}: subscriber {sub} of topic {} received method {}", sp.topic, v["method"]));
        }
        if Some(&v["params"]["subscription_id"]) != ids.get(sub).map(|x| json!(x)).as_ref() {
            rep.violation("C20.N3.foreign-subscription-id", format!("{who}: subscriber {sub} (id {:?}) received an event tagged {}", ids.get(sub), v["params"]["subscription_id"]));
        }
        let (Some(p), Some(n)) = (v["params"]["data"]["pub"].as_u64(), v["params"]["data"]["n"].as_u64()) else {
            rep.violation("C20.N2.payload", format!("{who}: subscriber {sub} received payload {}", v["params"]["data"]));
            continue;
        };
        if let Some(prev) = last_n.get(&(*sub, p))
            && n <= *prev
        {
            rep.violation(if n == *prev { "C20.N4.delivered-twice" } else { "C20.N4.out-of-order" }, format!("{who}: subscriber {sub} received publisher {p}'s event {n} after {prev}"));
        }
        last_n.insert((*sub, p), n);
        match pub_call.get(&(p, n)) {
            None => rep.violation("C20.N4.never-published", format!("{who}: subscriber {sub} received event ({p},{n}) that was never published")),
            Some((cs, topic)) => {
                if *topic != sp.topic {
                    rep.violation("C20.N2.wrong-topic", format!("{who}: subscriber {sub} of {} received an event published on {topic}", sp.topic));
                }
                // N5: nothing published after the unsubscribe returned
                if let Some(ur) = unsub_ret_step.get(sub) {
                    rep.count("N5.checked_after_unsubscribe");
                    if cs > ur {
                        rep.violation("C20.N5.delivered-after-unsubscribe", format!("{who}: subscriber {sub}'s unsubscribe returned at step {ur}; event ({p},{n}) whose publish was CALLED at step {cs} was still delivered (received at step {s})"));
                    }
                }
                // and nothing published (returned) before the subscribe call
                if let (Some(sc), Some(pr)) = (sub_call_step.get(sub), pub_ret.get(&(p, n)))
                    && pr < sc
                {
                    rep.violation("C20.N4.delivered-from-before-subscribe", format!("{who}: subscriber {sub} received event ({p},{n}) whose publish had returned before it subscribed"));
                }
            }
        }
    }
    // drops on full channels (coverage): a live, subscribed-throughout subscriber that got fewer events than were published
    for (i, sp) in plan.subs.iter().enumerate() {
        let total: u64 = plan.pubs.iter().filter(|p| p.0 == sp.topic).map(|p| p.1).sum();
        if !sp.unsub && !sp.drop_rx && received.get(&i).copied().unwrap_or(0) < total.min(sp.recv_n as u64) {
            rep.count("event.dropped_full_channel");
        } else if sp.cap <= 2 && (sp.recv_n as u64) < total && !sp.unsub {
            rep.count("event.dropped_full_channel");
        }
    }
    // N6: after the final publishes the hub holds exactly the live subscriptions
    if let Some(fl) = final_len {
        rep.eval();
        rep.count("N6.final_len_checked");
        let live = plan.subs.iter().enumerate().filter(|(i, _)| ids.contains_key(i) && !unsubscribed.contains(i) && !dropped.contains(i)).count();
        if dropped.iter().any(|d| !unsubscribed.contains(d)) {
            rep.count("prune.closed_receiver");
        }
        if fl != live {
            rep.violation(if fl > live { "C20.N6.closed-or-unsubscribed-entry-not-removed" } else { "C20.N6.live-entry-removed" }, format!("{who}: after final publishes on every topic the hub holds {fl} entries, live subscriptions: {live} (dropped receivers {dropped:?}, unsubscribed {unsubscribed:?})"));
        }
    }
}

// ------------------------------------------------------------------------------------------------
// E5: the schedule-fuzzing executor
// ------------------------------------------------------------------------------------------------

pub fn run_schedule(rng: &mut Rng, rep: &mut Report) {
    let plan = gen_plan(rng);
    let hub = SubscriptionHub::new();
    let log = Arc::new(Log::default());
    let mut keep_slots: Vec<Slot> = Vec::new();
    let built = build_tasks(&plan, &hub, &log, &mut keep_slots);
    let kinds: Vec<Kind> = built.iter().map(|b| b.0).collect();
    let mut tasks: Vec<Option<BoxFut>> = built.into_iter().map(|b| Some(b.1)).collect();
    let n = tasks.len();
    let waker = Waker::noop();
    let mut cx = Context::from_waker(waker);
    let pct = rng.chance(1, 2);
    let mut prio: Vec<i64> = (0..n).map(|_| (rng.next_u64() >> 8) as i64).collect();
    let mut next_low: i64 = -1;
    let mut change_points: Vec<u64> = (0..(1 + rng.below(3))).map(|_| rng.below(400)).collect();
    let freeze_at = if rng.chance(2, 3) { Some(rng.below(300)) } else { None };
    let mut frozen = false;
    let mut sched_hash = Fnv::new();
    let mut step: u64 = 0;
    let mut idle_polls = 0u32;
    let api_unfinished = |tasks: &Vec<Option<BoxFut>>| (0..n).filter(|i| kinds[*i] != Kind::Receiver && tasks[*i].is_some()).count();
    // pending publish bookkeeping for N1 (rounds with receivers frozen)
    let mut rounds_since_pubcall: HashMap<usize, u32> = HashMap::new();
    let n_api = kinds.iter().filter(|k| **k != Kind::Receiver).count() as u32;
    let bound = 2 * n_api + 2;
    let pub_open = |log: &Log| -> HashMap<usize, (u64, u64)> {
        let ev = log.ev.lock().unwrap();
        let mut open: HashMap<usize, (u64, u64)> = HashMap::new();
        for (_, e) in ev.iter() {
            match e {
                Ev::PubCall { task, p, n, .. } => {
                    open.insert(*task, (*p, *n));
                }
                Ev::PubRet { task, .. } => {
                    open.remove(task);
                }
                _ => {}
            }
        }
        open
    };
    while api_unfinished(&tasks) > 0 && step < 6000 {
        if let Some(f) = freeze_at
            && step >= f
        {
            frozen = true;
        }
        if frozen {
            // one round: every unfinished hub-API task is polled once, in PRNG order
            let mut order: Vec<usize> = (0..n).filter(|i| kinds[*i] != Kind::Receiver && tasks[*i].is_some()).collect();
            rng.shuffle(&mut order);
            let before = log.ev.lock().unwrap().len();
            for i in order {
                if let Some(t) = tasks[i].as_mut() {
                    step += 1;
                    rep.count("polls");
                    sched_hash.u64(kinds[i] as u64 + 10);
                    if t.as_mut().poll(&mut cx).is_ready() {
                        tasks[i] = None;
                    }
                }
            }
            let open = pub_open(&log);
            rounds_since_pubcall.retain(|t, _| open.contains_key(t));
            for t in open.keys() {
                let r = rounds_since_pubcall.entry(*t).or_insert(0);
                *r += 1;
                if *r > bound {
                    rep.violation("C20.N1.publish-blocked-by-stalled-subscriber", format!("with every receiver task frozen, publisher task {t}'s publish {:?} has not completed after {} rounds of polling all {} hub-API tasks (bound {bound}); channel capacities {:?}", open[t], *r, n_api, plan.subs.iter().map(|s| s.cap).collect::<Vec<_>>()));
                    tasks.iter_mut().for_each(|t| *t = None);
                    break;
                }
            }
            let after = log.ev.lock().unwrap().len();
            let _ = (before, after);
            continue;
        }
        // ---- unfrozen: PRNG / PCT choice among unfinished tasks ------------------------------------------------------------
        if pct && change_points.iter().any(|c| *c == step) {
            let i = rng.usize_below(n);
            prio[i] = next_low;
            next_low -= 1;
        }
        let alive: Vec<usize> = (0..n).filter(|i| tasks[*i].is_some()).collect();
        let i = if pct { *alive.iter().max_by_key(|i| prio[**i]).unwrap() } else { alive[rng.usize_below(alive.len())] };
        step += 1;
        rep.count("polls");
        sched_hash.u64(kinds[i] as u64);
        let before = log.ev.lock().unwrap().len();
        let ready = tasks[i].as_mut().unwrap().as_mut().poll(&mut cx).is_ready();
        if ready {
            tasks[i] = None;
        } else if pct {
            // a task that could not proceed goes to the back
            prio[i] = next_low;
            next_low -= 1;
        }
        let progressed = ready || log.ev.lock().unwrap().len() != before;
        if progressed {
            idle_polls = 0;
        } else {
            idle_polls += 1;
            if idle_polls > 400 {
                let open = pub_open(&log);
                if !open.is_empty() {
                    rep.violation("C20.N1.publish-blocked", format!("no task made progress for 400 consecutive polls while publishes {open:?} are pending (receivers that read their quota keep their channel open but read no more); capacities {:?}", plan.subs.iter().map(|s| s.cap).collect::<Vec<_>>()));
                } else {
                    rep.violation("C20.stall", format!("no task made progress for 400 consecutive polls; alive {:?}; plan {plan:?}; pct {pct}; last events {:?}", (0..n).filter(|i| tasks[*i].is_some()).map(|i| kinds[i]).collect::<Vec<_>>(), log.ev.lock().unwrap().iter().rev().take(8).collect::<Vec<_>>()));
                }
                break;
            }
        }
        change_points.retain(|c| *c >= step);
    }
    if frozen {
        let ev = log.ev.lock().unwrap();
        let n_frozen_pubs = ev.iter().filter(|(_, e)| matches!(e, Ev::PubRet { .. })).count() as u64;
        drop(ev);
        rep.add("publish.completed_with_receivers_frozen", n_frozen_pubs.min(30));
    }
    // let the receivers drain what is buffered (they were frozen or simply not scheduled)
    for _ in 0..3 {
        for i in 0..n {
            if kinds[i] == Kind::Receiver
                && let Some(t) = tasks[i].as_mut()
            {
                for _ in 0..200 {
                    let before = log.ev.lock().unwrap().len();
                    if t.as_mut().poll(&mut cx).is_ready() {
                        tasks[i] = None;
                        break;
                    }
                    if log.ev.lock().unwrap().len() == before {
                        break;
                    }
                }
            }
        }
    }
    // final publishes on every topic (prune), then len()
    let mut fin = Box::pin(async {
        hub.publish("stats", json!({"pub": 99, "n": 0})).await;
        hub.publish("priority.window", json!({"pub": 99, "n": 0})).await;
        hub.len().await
    });
    let mut final_len = None;
    for _ in 0..50 {
        if let Poll::Ready(l) = fin.as_mut().poll(&mut cx) {
            final_len = Some(l);
            break;
        }
    }
    if final_len.is_none() && tasks.iter().all(|t| t.is_none()) {
        rep.violation("C20.N1.publish-blocked", "the final publish did not complete although every task has finished".into());
    }
    let ev = log.ev.lock().unwrap().clone();
    // final publishes are not in the plan: ignore their deliveries (pub 99)
    let ev: Vec<(u64, Ev)> = ev.into_iter().filter(|(_, e)| !matches!(e, Ev::Recv { line, .. } if line.contains("\"pub\":99"))).collect();
    let all_done = tasks.iter().enumerate().all(|(i, t)| t.is_none() || kinds[i] == Kind::Receiver);
    check_log(&plan, &ev, if all_done { final_len } else { None }, rep, "E5");
    rep.count("schedules");
    rep.distinct(sched_hash.finish());
    if rep.wants_sample() {
        rep.sample(json!({"plan": format!("{plan:?}"), "pct": pct, "receivers_frozen_at_step": freeze_at, "polls": step, "log_head": ev.iter().take(30).map(|(s, e)| format!("{s}:{e:?}")).collect::<Vec<_>>()}));
    }
}

// ------------------------------------------------------------------------------------------------
// real-runtime lanes
// ------------------------------------------------------------------------------------------------

fn runtime_lane(cfg: &RunCfg, rep: &mut Report) {
    let rt = tokio::runtime::Builder::new_multi_thread().worker_threads(4).enable_all().build().expect("rt");
    let rounds = cfg.cases(2_500, 40_000);
    let mut rng = Rng::derive(cfg.seed, &[0xC20, 1]);
    let lane_start = Instant::now();
    // The overlap counters (an unsubscribe / subscribe call racing a publish) depend on real parallelism, which a
    // loaded machine grants less of: beyond the planned rounds, keep going until both reach their coverage floor
    // (at most 8x the rounds and 90 s / 900 s) instead of ending the lane short of it.
    // targets, not floors: on a machine that grants the four workers no real parallelism the overlap counts can
    // stay at zero (observed once while a second copy of the whole quick tier ran on the same cores); that must not
    // turn the check INCONCLUSIVE - the counts are reported in the evidence, and the prune-race and physical-N5 lanes
    // below create their overlaps by construction
    let target = (if cfg.tier == crate::report::Tier::Quick { 110u64 } else { 4_010 }) * cfg.scale_mul / cfg.scale_div.max(1);
    let (need_u, need_s) = (target, target);
    let extra_budget = Duration::from_secs(if cfg.tier == crate::report::Tier::Quick { 90 } else { 700 });
    let mut round = 0u64;
    loop {
        if round >= rounds {
            let short = rep.get("race.unsubscribe_during_publish") < need_u || rep.get("race.subscribe_during_publish") < need_s;
            if !short || round >= rounds * 8 || lane_start.elapsed() > extra_budget || cfg.lane.is_some() {
                break;
            }
            rep.count("runtime.extra_rounds_for_overlap_floor");
        }
        round += 1;
        let plan = gen_plan(&mut rng);
        let hub = SubscriptionHub::new();
        let log = Arc::new(Log::default());
        let mut keep_slots: Vec<Slot> = Vec::new();
        let built = build_tasks(&plan, &hub, &log, &mut keep_slots);
        let ok = rt.block_on(async {
            let mut hs = Vec::new();
            for (k, f) in built {
                hs.push((k, tokio::spawn(f)));
            }
            let mut all = true;
            for (k, h) in hs {
                // receivers with a quota larger than what will ever arrive never finish: give them a moment, then abort
                match tokio::time::timeout(Duration::from_millis(if k == Kind::Receiver { 1 } else { 5000 }), h).await {
                    Ok(_) => {}
                    Err(_) => {
                        if k != Kind::Receiver {
                            all = false;
                        }
                    }
                }
            }
            all
        });
        if !ok {
            rep.violation("C20.N1.publish-blocked", format!("real runtime: a hub-API task did not finish within 5 s (plan {plan:?})"));
            // blocked tasks stay parked on this runtime; one witness is enough, do not pile up 5 s waits
            break;
        }
        if lane_start.elapsed() > Duration::from_secs(900) {
            rep.inconclusive("runtime lane watchdog (900 s) expired".into());
            break;
        }
        let ev = log.ev.lock().unwrap().clone();
        rep.add("runtime.operations", ev.len() as u64);
        check_log(&plan, &ev, None, rep, "tokio multi-thread runtime");
    }
    if rep.violations.iter().any(|v| v.signature == "C20.N1.publish-blocked") {
        return;
    }
    // ---- prune race (added after seeded defect C20d): "closed subscribers are pruned" when the connection's own
    // clean-up (unsubscribe of a subscription whose receiver is already gone) runs INSIDE a publish, between its
    // fan-out pass and its prune pass. A long fan-out (many permanently full co-subscribers, large payload) keeps
    // the hub lock while unsubscribe(A) queues up behind it and - the tokio mutex is FIFO - gets it before the
    // publisher's second acquisition. Afterwards every co-subscriber leaves, one more subscriber closes, and a
    // single publish must leave the hub empty.
    let rounds = cfg.cases(1_500, 30_000);
    let lane_start = Instant::now();
    for round in 0..rounds {
        let hub = SubscriptionHub::new();
        let fillers = 4 + rng.usize_below(40);
        let payload = "y".repeat(*rng.pick(&[64usize, 8_000, 60_000]));
        let wait_us = rng.below(300);
        let left: Option<usize> = rt.block_on(async {
            let body = async {
                let mut keep = Vec::new();
                let mut filler_ids = Vec::new();
                for _ in 0..fillers {
                    let (tx, rx) = mpsc::channel::<String>(1);
                    filler_ids.push(hub.subscribe("stats", tx).await);
                    keep.push(rx);
                }
                let (tx_a, rx_a) = mpsc::channel::<String>(4);
                let a = hub.subscribe("stats", tx_a).await;
                let (tx_c, rx_c) = mpsc::channel::<String>(4);
                let _c = hub.subscribe("stats", tx_c).await;
                drop(rx_a); // A's connection is gone, its clean-up has not run yet
                let (h1, pl) = (hub.clone(), payload.clone());
                let publisher = tokio::spawn(async move {
                    h1.publish("stats", json!({"pad": pl})).await;
                });
                let h2 = hub.clone();
                let cleaner = tokio::spawn(async move {
                    tokio::time::sleep(Duration::from_micros(wait_us)).await;
                    h2.unsubscribe(&a).await
                });
                let _ = publisher.await;
                let _ = cleaner.await;
                for id in filler_ids {
                    hub.unsubscribe(&id).await;
                }
                drop(rx_c); // C closes without unsubscribing: only a publish can prune it
                hub.publish("stats", json!({"last": true})).await;
                let n = hub.len().await;
                drop(keep);
                n
            };
            tokio::time::timeout(Duration::from_secs(20), body).await.ok()
        });
        rep.eval();
        rep.count("N6.prune_race_rounds");
        match left {
            None => {
                rep.violation("C20.N1.publish-blocked", format!("real runtime, prune-race round {round}: hub calls did not complete within 20 s ({fillers} full co-subscribers)"));
                return;
            }
            Some(0) => {}
            Some(n) => {
                rep.violation(
                    "C20.N6.closed-subscriber-not-pruned",
                    format!("real runtime, prune-race round {round}: a subscription whose receiver was already dropped was unsubscribed while a publish ({fillers} full co-subscribers, payload {} B) was in flight; afterwards all co-subscribers unsubscribed, the last subscriber closed its receiver, and one more publish on its topic left the hub with {n} entries (expected 0: closed subscribers are pruned)", payload.len()),
                );
                break;
            }
        }
        if lane_start.elapsed() > Duration::from_secs(600) {
            break;
        }
    }
    // ---- physical N5: nothing lands in a subscriber's channel after its unsubscribe() has returned --------------------
    // A publisher hammers one topic that also has several permanently full capacity-1 subscribers (long fan-out
    // loop, large payload); a victim subscribes, waits a little, unsubscribes, drains what is buffered at that
    // instant and then watches its channel: any line that appears later was sent after the unsubscribe completed.
    if rep.violations.iter().any(|v| v.signature == "C20.N1.publish-blocked") {
        // blocked tasks are parked on this runtime; the remaining lanes would only wait on them
        return;
    }
    let rounds = cfg.cases(400, 6_000);
    let lane_start = Instant::now();
    for round in 0..rounds {
        let hub = SubscriptionHub::new();
        let wait_us = rng.below(400);
        let fulls = 2 + rng.usize_below(6);
        let payload = "x".repeat(*rng.pick(&[16usize, 4_000, 60_000]));
        let late: Option<String> = rt.block_on(async {
          let body = async {
            let mut keep = Vec::new();
            for _ in 0..fulls {
                let (tx, rx) = mpsc::channel::<String>(1);
                hub.subscribe("stats", tx).await;
                keep.push(rx);
            }
            let stop = Arc::new(std::sync::atomic::AtomicBool::new(false));
            let (h2, st2, pl) = (hub.clone(), stop.clone(), payload.clone());
            let publisher = tokio::spawn(async move {
                let mut n = 0u64;
                while !st2.load(Ordering::Relaxed) {
                    h2.publish("stats", json!({"n": n, "pad": pl})).await;
                    n += 1;
                    if n % 8 == 0 {
                        tokio::task::yield_now().await;
                    }
                }
                n
            });
            let (tx, mut rx) = mpsc::channel::<String>(128);
            let id = hub.subscribe("stats", tx).await;
            tokio::time::sleep(Duration::from_micros(wait_us)).await;
            let removed = hub.unsubscribe(&id).await;
            // everything buffered at this instant was sent before the unsubscribe completed
            let mut before = 0;
            while rx.try_recv().is_ok() {
                before += 1;
            }
            tokio::time::sleep(Duration::from_millis(2)).await;
            let late = rx.try_recv().ok();
            stop.store(true, Ordering::Relaxed);
            let _ = publisher.await;
            let _ = (removed, before, keep);
            late.map(|l| l.chars().take(90).collect::<String>())
          };
          // a hub that blocks (publish awaiting a full channel while holding the lock) would park this round for
          // ever: bounded wait, reported as the N1 violation it is
          match tokio::time::timeout(Duration::from_secs(20), body).await {
              Ok(v) => v,
              Err(_) => Some("<<hub call blocked>>".to_string()),
          }
        });
        rep.eval();
        rep.count("N5.physical_unsubscribe_rounds");
        if late.as_deref() == Some("<<hub call blocked>>") {
            rep.violation("C20.N1.publish-blocked", format!("real runtime, physical-N5 round {round}: subscribe / unsubscribe / publish did not complete within 20 s with {fulls} permanently full capacity-1 co-subscribers"));
            break;
        }
        if let Some(l) = late {
            rep.violation("C20.N5.delivered-after-unsubscribe", format!("real runtime, round {round}: a line landed in the subscriber's channel after its unsubscribe() had returned and the channel had been drained ({fulls} full capacity-1 co-subscribers, payload {} B): {l}...", payload.len()));
            break;
        }
        if lane_start.elapsed() > Duration::from_secs(600) {
            break;
        }
    }
    // paused clock: a publish can only time out if it is truly blocked
    let prt = tokio::runtime::Builder::new_current_thread().enable_all().start_paused(true).build().expect("rt");
    let rounds = cfg.cases(200, 5_000);
    for _ in 0..rounds {
        let cap = *rng.pick(&[1usize, 2, 8, 128]);
        let hub = SubscriptionHub::new();
        let n = 20 + rng.below(300);
        let mode = rng.below(3);
        let r = prt.block_on(async {
            let (tx, rx) = mpsc::channel::<String>(cap);
            let _id = hub.subscribe("stats", tx).await;
            let mut keep = Some(rx);
            if mode == 1 {
                keep = None; // closed receiver
            }
            for k in 0..n {
                if tokio::time::timeout(Duration::from_secs(10), hub.publish("stats", json!({"n": k}))).await.is_err() {
                    return Err(k);
                }
            }
            drop(keep);
            Ok(())
        });
        rep.add("paused_clock.publishes", n);
        rep.eval();
        if let Err(k) = r {
            rep.violation("C20.N1.publish-blocked-by-stalled-subscriber", format!("paused-clock lane: publish #{k} timed out after 10 virtual seconds with a never-reading subscriber (capacity {cap}, mode {mode})"));
        }
    }
}

fn socket_lane(cfg: &RunCfg, rep: &mut Report) {
    let exe = std::env::current_exe().unwrap_or_default();
    let bin = exe.parent().map(|p| p.join("vctl")).unwrap_or_default();
    if !bin.exists() {
        rep.inconclusive(format!("socket lane: {} not built", bin.display()));
        return;
    }
    let sock = format!("/tmp/verif-c20-{}.sock", std::process::id());
    let _ = std::fs::remove_file(&sock);
    let mut child = match Command::new(&bin).arg(&sock).arg("1").env("RUST_LOG", "off").stdin(Stdio::piped()).stdout(Stdio::null()).stderr(Stdio::null()).spawn() {
        Ok(c) => c,
        Err(e) => {
            rep.inconclusive(format!("socket lane: cannot start vctl: {e}"));
            return;
        }
    };
    let t0 = Instant::now();
    while !std::path::Path::new(&sock).exists() && t0.elapsed() < Duration::from_secs(10) {
        std::thread::sleep(Duration::from_millis(10));
    }
    let sub_line = b"{\"jsonrpc\":\"2.0\",\"method\":\"subscribe\",\"params\":{\"topic\":\"stats\"},\"id\":1}\n";
    // 1. a subscriber that never reads
    let mut lazy = UnixStream::connect(&sock).ok();
    if let Some(c) = lazy.as_mut() {
        let _ = c.write_all(sub_line);
    }
    // 2. a subscriber that disconnects abruptly
    if let Ok(mut c) = UnixStream::connect(&sock) {
        let _ = c.write_all(sub_line);
        std::thread::sleep(Duration::from_millis(20));
        drop(c);
    }
    // 3. a well-behaved subscriber
    let Ok(mut good) = UnixStream::connect(&sock) else {
        rep.inconclusive("socket lane: cannot connect".into());
        let _ = child.kill();
        return;
    };
    let _ = good.write_all(sub_line);
    let _ = good.set_read_timeout(Some(Duration::from_secs(5)));
    let reader = BufReader::new(good.try_clone().unwrap());
    let want = if cfg.tier == crate::report::Tier::Thorough { 6000 } else { 600 };
    let mut my_id: Option<String> = None;
    let mut last_seq = 0u64;
    let mut seen = 0u64;
    let start = Instant::now();
    for line in reader.lines() {
        let Ok(line) = line else { break };
        let Ok(v) = serde_json::from_str::<Value>(&line) else { continue };
        if v.get("result").is_some() {
            my_id = v["result"]["subscription_id"].as_str().map(|s| s.to_string());
            continue;
        }
        rep.eval();
        seen += 1;
        if v["method"] != json!("stats.update") {
            rep.violation("C20.N2.wrong-topic", format!("socket lane: received method {}", v["method"]));
        }
        if my_id.is_some() && v["params"]["subscription_id"].as_str().map(|s| s.to_string()) != my_id {
            rep.violation("C20.N3.foreign-subscription-id", format!("socket lane: event tagged {} for subscription {:?}", v["params"]["subscription_id"], my_id));
        }
        let seq = v["params"]["data"]["seq"].as_u64().unwrap_or(0);
        if seq <= last_seq {
            rep.violation("C20.N4.out-of-order", format!("socket lane: event seq {seq} after {last_seq}"));
        }
        last_seq = seq;
        if seen >= want || start.elapsed() > Duration::from_secs(60) {
            break;
        }
    }
    rep.add("socket.events_seen_by_good_client", seen);
    if seen < want.min(50) {
        rep.violation("C20.N1.publish-blocked-by-stalled-subscriber", format!("socket lane: with one subscriber that never reads and one that disconnected, the well-behaved subscriber received only {seen} events in {:?} (the periodic publisher stalled)", start.elapsed()));
    }
    drop(lazy);
    let _ = child.kill();
    let _ = child.wait();
    let _ = std::fs::remove_file(&sock);
}

pub fn run(cfg: &RunCfg) -> Report {
    if crate::live::is_live_lane(cfg) {
        let mut rep = Report::new();
        crate::live::prop_lane(cfg, &mut rep, "C20", &[(crate::live::Scenario::StalledSubscriber, 1)]);
        return rep;
    }
    let cases = cfg.cases(40_000, 1_600_000);
    let mut rep = run_cases(cfg, 0, cases, Duration::from_secs(3600), |_c, rng, rep| run_schedule(rng, rep));
    if cfg.replay_case.is_none() && cfg.lane.as_deref() != Some("miri") {
        runtime_lane(cfg, &mut rep);
        if cfg.lane.is_none() {
            socket_lane(cfg, &mut rep);
        }
    }
    // E6: a stalled subscriber against the production event loop carrying traffic
    if cfg.lane.is_none() || crate::live::is_live_lane(cfg) {
        crate::live::prop_lane(cfg, &mut rep, "C20", &[(crate::live::Scenario::StalledSubscriber, 1)]);
    }
    rep
}
