//! C15 — wire codec is total, bounded and matches the SRTLA/SRT layouts.
//! Differential monitor: every real decoder against the independent reference
//! codec in `refcodec`, over exhaustive short strata + generated inputs, plus
//! builder round-trips.

use std::time::Duration;

use srtla_protocol as sp;

use crate::prng::{Fnv, Rng};
use crate::refcodec as rc;
use crate::report::{PropSpec, Report, RunCfg};
use crate::runner::run_cases;

pub const SPEC: PropSpec = PropSpec {
    id: "C15",
    level: "exploration",
    rule: "inputs: (a) every byte string of length 0..2 and every 16-bit type code x lengths {3..24,37,38,39,257,258,259} x {0x00,0xFF,PRNG} fills (exhaustive strata), (b) PRNG byte strings 0..1500, (c) structure-aware SRT NAK / SRT ACK / SRTLA ACK / keepalive frames incl. truncations and cap-hitting ranges, (d) builder arguments over full integer ranges. A case is non-trivial when at least one decoder ACCEPTS it (returns Some / non-empty / true); distinct = distinct FNV hash of (which decoders accepted, length bucket, decoded-value hash).",
    assumptions: &[
        "the reference codec in harness/src/refcodec.rs is the specification (written from the property's layout text)",
        "NAK lists whose full expansion exceeds 1000 entries are only held to the size bound 1000 + (len-4)/4, not to an exact cap policy",
    ],
    floors: &[
        ("accept.get_packet_type", 10_000, 100_000),
        ("accept.srt_seq", 10_000, 100_000),
        ("accept.retransmit", 10_000, 100_000),
        ("accept.srt_ack", 10_000, 100_000),
        ("accept.srt_nak", 10_000, 100_000),
        ("accept.srtla_ack", 10_000, 100_000),
        ("accept.keepalive_ts", 10_000, 100_000),
        ("accept.keepalive_info", 10_000, 100_000),
        ("accept.reg1", 1_000, 10_000),
        ("accept.reg2", 1_000, 10_000),
        ("accept.reg3", 1, 1),
        ("nak.cap_hit", 1_000, 10_000),
        ("builder.roundtrips", 10_000, 100_000),
        ("exhaustive.len0to2", 65_793, 65_793),
    ],
};

fn full_nak_expansion_len(b: &[u8]) -> u64 {
    // uncapped expansion size (saturating) of a NAK frame per the layout
    if b.len() < 8 || rc::ptype(b) != Some(rc::T_SRT_NAK) {
        return 0;
    }
    let words = (b.len() - 4) / 4;
    let w32 = |i: usize| -> u32 {
        u32::from_be_bytes([b[4 + 4 * i], b[5 + 4 * i], b[6 + 4 * i], b[7 + 4 * i]])
    };
    let mut n = 0u64;
    let mut w = 0;
    while w < words {
        let v = w32(w);
        w += 1;
        if v & 0x8000_0000 != 0 {
            if w >= words {
                break;
            }
            let s = (v & 0x7fff_ffff) as u64;
            let e = w32(w) as u64;
            w += 1;
            if e >= s {
                n = n.saturating_add(e - s + 1);
            }
        } else {
            n += 1;
        }
    }
    n
}

pub fn check_input(b: &[u8], rep: &mut Report) {
    rep.eval();
    let mut accepted: u32 = 0;
    let mut vh = Fnv::new();

    let a = sp::get_packet_type(b);
    let r = rc::ptype(b);
    if a != r {
        rep.violation("C15.decode.get_packet_type", format!("input {:02x?} real {:?} ref {:?}", head(b), a, r));
    }
    if let Some(t) = a {
        accepted |= 1;
        rep.count("accept.get_packet_type");
        vh.u64(t as u64);
    }

    let a = sp::get_srt_sequence_number(b);
    let r = rc::srt_seq(b);
    if a != r {
        rep.violation("C15.decode.srt_seq", format!("input {:02x?} real {:?} ref {:?}", head(b), a, r));
    }
    if a.is_some() {
        accepted |= 2;
        rep.count("accept.srt_seq");
    }

    let a = sp::is_srt_data_retransmit(b);
    let r = rc::is_retransmit(b);
    if a != r {
        rep.violation("C15.decode.retransmit", format!("input {:02x?} real {} ref {}", head(b), a, r));
    }
    if a {
        accepted |= 4;
        rep.count("accept.retransmit");
    }

    let a = sp::parse_srt_ack(b);
    let r = rc::srt_ack(b);
    if a != r {
        rep.violation("C15.decode.srt_ack", format!("input len {} {:02x?} real {:?} ref {:?}", b.len(), head(b), a, r));
    }
    if let Some(v) = a {
        accepted |= 8;
        rep.count("accept.srt_ack");
        vh.u64(v as u64);
    }

    let a = sp::parse_srt_nak(b);
    let bound = 1000 + b.len().saturating_sub(4) / 4;
    if a.len() > bound {
        rep.violation("C15.nak.bound", format!("input len {} produced {} entries > bound {}", b.len(), a.len(), bound));
    }
    let full = full_nak_expansion_len(b);
    let flagged_end = rc::nak_has_flagged_range_end(b);
    if flagged_end {
        rep.count("nak.unspecified_flagged_range_end");
    }
    if full <= 1000 && !flagged_end {
        let r = rc::srt_nak(b);
        if a.as_slice() != r.as_slice() {
            rep.violation(
                "C15.decode.srt_nak",
                format!("input len {} {:02x?} real {} entries {:?}.. ref {} entries {:?}..", b.len(), head(b), a.len(), &a[..a.len().min(6)], r.len(), &r[..r.len().min(6)]),
            );
        }
    } else {
        rep.count("nak.cap_hit");
        // every produced entry must still come from the frame (prefix of the full
        // expansion is what a capped decoder emits for a single leading range)
    }
    if !a.is_empty() {
        accepted |= 16;
        rep.count("accept.srt_nak");
        vh.u64(a.len() as u64);
        vh.u64(a[0] as u64);
    }

    let a = sp::parse_srtla_ack(b);
    let r = rc::srtla_ack(b);
    if a.as_slice() != r.as_slice() {
        rep.violation("C15.decode.srtla_ack", format!("input len {} {:02x?} real {:?}.. ref {:?}..", b.len(), head(b), &a[..a.len().min(6)], &r[..r.len().min(6)]));
    }
    if !a.is_empty() {
        accepted |= 32;
        rep.count("accept.srtla_ack");
        vh.u64(a.len() as u64);
    }

    let a = sp::extract_keepalive_timestamp(b);
    let r = rc::keepalive_ts(b);
    if a != r {
        rep.violation("C15.decode.keepalive_ts", format!("input len {} {:02x?} real {:?} ref {:?}", b.len(), head(b), a, r));
    }
    if let Some(v) = a {
        accepted |= 64;
        rep.count("accept.keepalive_ts");
        vh.u64(v);
    }

    let a = sp::extract_keepalive_conn_info(b);
    let r = rc::keepalive_info(b);
    let same = match (&a, &r) {
        (None, None) => true,
        (Some(x), Some(y)) => {
            x.conn_id == y.conn_id
                && x.window == y.window
                && x.in_flight == y.in_flight
                && x.rtt_ms == y.rtt_ms
                && x.nak_count == y.nak_count
                && x.bitrate_bytes_per_sec == y.bitrate_bytes_per_sec
        }
        _ => false,
    };
    if !same {
        rep.violation("C15.decode.keepalive_info", format!("input len {} {:02x?} real {:?} ref {:?}", b.len(), head(b), a, r));
    }
    if a.is_some() {
        accepted |= 128;
        rep.count("accept.keepalive_info");
    }

    for (bit, name, real, refv) in [
        (256u32, "reg1", sp::is_srtla_reg1(b), rc::is_reg1(b)),
        (512, "reg2", sp::is_srtla_reg2(b), rc::is_reg2(b)),
        (1024, "reg3", sp::is_srtla_reg3(b), rc::is_reg3(b)),
    ] {
        if real != refv {
            rep.violation(&format!("C15.decode.{name}"), format!("input len {} {:02x?} real {} ref {}", b.len(), head(b), real, refv));
        }
        if real {
            accepted |= bit;
            rep.count(&format!("accept.{name}"));
        }
    }

    if accepted != 0 {
        let mut h = Fnv::new();
        h.u64(accepted as u64);
        h.u64(len_bucket(b.len()));
        h.u64(vh.finish());
        rep.distinct(h.finish());
    }
}

fn len_bucket(n: usize) -> u64 {
    match n {
        0..=40 => n as u64,
        41..=256 => 41,
        257 => 257,
        258 => 258,
        259 => 259,
        _ => 300 + (n as u64 / 100),
    }
}

fn head(b: &[u8]) -> Vec<u8> {
    b[..b.len().min(24)].to_vec()
}

fn gen_structured(rng: &mut Rng) -> Vec<u8> {
    match rng.below(9) {
        0 => {
            // SRT NAK with mixed singles / ranges
            let n = rng.below(12) as usize;
            let mut items = Vec::new();
            for _ in 0..n {
                let s = match rng.below(5) {
                    0 => rng.next_u32() & 0x7fff_ffff,
                    1 => 0x7fff_ffff - rng.below(4) as u32,
                    2 => rng.below(5) as u32,
                    _ => 1_000_000 + rng.below(100_000) as u32,
                };
                if rng.chance(1, 2) {
                    let e = match rng.below(7) {
                        0 => s.wrapping_sub(1 + rng.below(3) as u32), // start > end
                        1 => u32::MAX,
                        2 => s + rng.below(3) as u32,
                        3 => s.saturating_add(990 + rng.below(30) as u32), // near cap
                        4 => s.saturating_add(5000),
                        5 => 0x7fff_ffff,
                        _ => s.saturating_add(rng.below(300) as u32),
                    };
                    items.push((s, Some(e)));
                } else {
                    items.push((s, None));
                }
            }
            let mut v = rc::build_srt_nak(&items);
            v[2] = rng.next_u32() as u8;
            v[3] = rng.next_u32() as u8;
            // truncation of 0..7 trailing bytes
            let cut = rng.below(8) as usize;
            let l = v.len().saturating_sub(if rng.chance(1, 3) { cut } else { 0 });
            v.truncate(l);
            v
        }
        1 => {
            // NAK with many ranges hitting the cap mid-way then singles
            let mut items = Vec::new();
            let k = 1 + rng.below(6);
            for i in 0..k {
                let s = 10_000 * (i as u32 + 1);
                items.push((s, Some(s + 150 + rng.below(400) as u32)));
            }
            for _ in 0..rng.below(20) {
                items.push((rng.next_u32() & 0x7fff_ffff, None));
            }
            rc::build_srt_nak(&items)
        }
        2 => {
            // SRT ACK, lengths around the 20-byte boundary
            let len = *rng.pick(&[16usize, 19, 20, 21, 24, 44, 100, 1500]);
            let mut v = rng.bytes(len);
            if v.len() >= 2 {
                v[0] = 0x80;
                v[1] = 0x02;
            }
            v
        }
        3 => {
            // SRTLA ACK lists 0..374 entries, with truncation
            let n = *rng.pick(&[0usize, 1, 2, 10, 100, 373, 374]);
            let acks: Vec<u32> = (0..n).map(|_| rng.next_u32()).collect();
            let mut v = rc::build_srtla_ack(&acks);
            v[2] = rng.next_u32() as u8;
            v[3] = rng.next_u32() as u8;
            let cut = rng.below(4) as usize;
            let l = v.len() - cut.min(v.len());
            v.truncate(l);
            v
        }
        4 => {
            // keepalive: 10-byte, extended, wrong magic / version, truncated
            let info = rc::KaInfo {
                conn_id: rng.next_u32(),
                window: rng.next_u32() as i32,
                in_flight: rng.next_u32() as i32,
                rtt_ms: rng.next_u32(),
                nak_count: rng.next_u32(),
                bitrate_bytes_per_sec: rng.next_u32(),
            };
            let mut v = rc::build_keepalive_ext(info, rng.next_u64());
            match rng.below(6) {
                0 => v[10] ^= 1,
                1 => v[13] ^= 1,
                2 => v.truncate(rng.below(38) as usize),
                3 => {
                    let n = rng.below(100) as usize;
                    v.extend(rng.bytes(n))
                }
                _ => {}
            }
            v
        }
        5 => {
            // REG frames around 258
            let mut id = [0u8; 256];
            rng.fill(&mut id);
            let t = *rng.pick(&[rc::T_REG1, rc::T_REG2, rc::T_REG3, rc::T_REG_ERR, rc::T_REG_NGP]);
            let mut v = rc::build_reg(t, &id);
            let l = *rng.pick(&[2usize, 3, 257, 258, 258, 258, 259]);
            v.resize(l, 0xAB);
            v
        }
        6 => {
            // SRT data packets: clear top bit, retransmit flag variations
            let len = *rng.pick(&[4usize, 7, 8, 9, 16, 188, 1316, 1500]);
            let mut v = rng.bytes(len);
            v[0] &= 0x7f;
            if v.len() > 4 && rng.chance(1, 2) {
                v[4] |= 0x04;
            }
            v
        }
        7 => {
            // valid frame with one random byte mutated
            let mut v = gen_structured_simple(rng);
            if !v.is_empty() {
                let i = rng.usize_below(v.len().min(24));
                v[i] = rng.next_u32() as u8;
            }
            v
        }
        _ => {
            let len = rng.below(1501) as usize;
            rng.bytes(len)
        }
    }
}

fn gen_structured_simple(rng: &mut Rng) -> Vec<u8> {
    match rng.below(3) {
        0 => rc::build_srt_nak(&[(rng.next_u32() & 0x7fff_ffff, None), (5, Some(9))]),
        1 => rc::build_srtla_ack(&[rng.next_u32(), rng.next_u32()]),
        _ => rc::build_srt_ack(rng.next_u32(), 44, 0),
    }
}

fn check_builders(rng: &mut Rng, rep: &mut Report) {
    // REG1 / REG2
    let mut id = [0u8; 256];
    match rng.below(4) {
        0 => id = [0u8; 256],
        1 => id = [0xFF; 256],
        _ => rng.fill(&mut id),
    }
    let r1 = sp::create_reg1_packet(&id);
    let r2 = sp::create_reg2_packet(&id);
    rep.eval();
    if r1.len() != 258 || r1[..] != rc::build_reg(rc::T_REG1, &id)[..] || !rc::is_reg1(&r1) || !sp::is_srtla_reg1(&r1) {
        rep.violation("C15.build.reg1", format!("REG1 frame mismatch for id[0..4]={:02x?}", &id[..4]));
    }
    if r2.len() != 258 || r2[..] != rc::build_reg(rc::T_REG2, &id)[..] || !rc::is_reg2(&r2) || !sp::is_srtla_reg2(&r2) {
        rep.violation("C15.build.reg2", format!("REG2 frame mismatch for id[0..4]={:02x?}", &id[..4]));
    }
    rep.count("builder.roundtrips");

    // keepalives
    let ts = match rng.below(5) {
        0 => 0,
        1 => u64::MAX,
        2 => rng.below(1 << 20),
        _ => rng.next_u64(),
    };
    let k10 = sp::create_keepalive_packet(ts);
    rep.eval();
    if k10.len() != 10 || k10[..] != rc::build_keepalive10(ts)[..] || rc::keepalive_ts(&k10) != Some(ts) || sp::extract_keepalive_timestamp(&k10) != Some(ts) {
        rep.violation("C15.build.keepalive10", format!("ts {ts}"));
    }
    rep.count("builder.roundtrips");
    let ext = |rng: &mut Rng| -> u32 {
        match rng.below(5) {
            0 => 0,
            1 => u32::MAX,
            2 => 0x8000_0000,
            _ => rng.next_u32(),
        }
    };
    let info = sp::ConnectionInfo {
        conn_id: ext(rng),
        window: ext(rng) as i32,
        in_flight: ext(rng) as i32,
        rtt_ms: ext(rng),
        nak_count: ext(rng),
        bitrate_bytes_per_sec: ext(rng),
    };
    let rinfo = rc::KaInfo {
        conn_id: info.conn_id,
        window: info.window,
        in_flight: info.in_flight,
        rtt_ms: info.rtt_ms,
        nak_count: info.nak_count,
        bitrate_bytes_per_sec: info.bitrate_bytes_per_sec,
    };
    let k = sp::create_keepalive_packet_ext(info, ts);
    rep.eval();
    let back = sp::extract_keepalive_conn_info(&k);
    if k.len() != 38
        || k[..] != rc::build_keepalive_ext(rinfo, ts)[..]
        || rc::keepalive_info(&k) != Some(rinfo)
        || rc::keepalive_ts(&k) != Some(ts)
        || back != Some(info)
        || sp::extract_keepalive_timestamp(&k) != Some(ts)
        || k[..10] != k10[..]
    {
        rep.violation("C15.build.keepalive_ext", format!("info {:?} ts {ts} frame {:02x?}", info, &k[..]));
    }
    rep.count("builder.roundtrips");

    // SRTLA ACK
    let n = *rng.pick(&[0usize, 1, 2, 3, 10, 64, 374]);
    let acks: Vec<u32> = (0..n).map(|_| ext(rng)).collect();
    let p = sp::create_ack_packet(&acks);
    rep.eval();
    if p.len() != 4 + 4 * n || p.as_slice() != rc::build_srtla_ack(&acks).as_slice() {
        rep.violation("C15.build.srtla_ack", format!("n={n} len={}", p.len()));
    }
    // decode(build(x)) == x whenever the frame is long enough to be decodable (n >= 1)
    if n >= 1 {
        let d = sp::parse_srtla_ack(&p);
        if d.as_slice() != acks.as_slice() || rc::srtla_ack(&p) != acks {
            rep.violation("C15.build.srtla_ack.roundtrip", format!("n={n} decoded {} entries", d.len()));
        }
    }
    rep.count("builder.roundtrips");
    check_input(&p, rep);
    check_input(&k, rep);
    check_input(&r1, rep);
}

pub fn run(cfg: &RunCfg) -> Report {
    let mut total = Report::new();

    // Stream 0: exhaustive strata, 256 cases keyed by first byte.
    let miri = cfg.lane.as_deref() == Some("miri");
    if !miri {
        let rep = run_cases(cfg, 0, 256, Duration::from_secs(600), |case, rng, rep| {
            let b0 = case as u8;
            if case == 0 {
                check_input(&[], rep);
                rep.count("exhaustive.len0to2");
            }
            check_input(&[b0], rep);
            rep.count("exhaustive.len0to2");
            for b1 in 0..=255u8 {
                check_input(&[b0, b1], rep);
                rep.count("exhaustive.len0to2");
                let lens: &[usize] = &[3, 4, 5, 6, 7, 8, 9, 10, 11, 12, 13, 14, 15, 16, 17, 18, 19, 20, 21, 22, 23, 24, 37, 38, 39, 257, 258, 259];
                for &l in lens {
                    for fill in 0..3 {
                        let mut v = match fill {
                            0 => vec![0u8; l],
                            1 => vec![0xFFu8; l],
                            _ => rng.bytes(l),
                        };
                        v[0] = b0;
                        v[1] = b1;
                        check_input(&v, rep);
                        rep.count("exhaustive.typecode_x_len");
                    }
                }
            }
        });
        total.merge(rep);
    }

    // Stream 1: generated inputs.
    let per_case = if miri { 40 } else { 4000 };
    let cases = cfg.cases(500, 60_000);
    let rep = run_cases(cfg, 1, cases, Duration::from_secs(3000), |_case, rng, rep| {
        for i in 0..per_case {
            let v = gen_structured(rng);
            if i == 0 && rep.wants_sample() {
                rep.sample(serde_json::json!({"kind": "generated", "len": v.len(), "head_hex": hex(&v[..v.len().min(32)]),
                    "real_nak_entries": sp::parse_srt_nak(&v).len(), "real_type": sp::get_packet_type(&v)}));
            }
            check_input(&v, rep);
        }
    });
    total.merge(rep);

    // Stream 2: builders.
    let per_case = if miri { 10 } else { 500 };
    let cases = cfg.cases(40, 4_000);
    let rep = run_cases(cfg, 2, cases, Duration::from_secs(3000), |_case, rng, rep| {
        for _ in 0..per_case {
            check_builders(rng, rep);
        }
    });
    total.merge(rep);
    total
        .notes
        .insert("exhaustive_strata".into(), serde_json::json!("all byte strings of length 0,1,2 (65 793) and all 65 536 type codes x 28 lengths x 3 fills were enumerated completely; everything else is sampled"));
    total
}

fn hex(b: &[u8]) -> String {
    b.iter().map(|x| format!("{x:02x}")).collect()
}
