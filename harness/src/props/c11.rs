//! C11 — enhanced selection is stable, hysteretic and respects its gates.
//!
//! Every real enhanced `select_connection_idx` call is compared with an
//! independent score oracle (written from the property / module documentation)
//! and with the score-factor trace exposed by the `verif-hooks` feature.

use std::time::Duration;

use srtla_core::connection::{LinkPhase, SrtlaConnection};
use srtla_core::selection::enhanced::verif_trace;
use srtla_core::selection::select_connection_idx;

use crate::linkgen::{self, GenOpts};
use crate::prng::{Fnv, Rng};
use crate::report::{PropSpec, Report, RunCfg};
use crate::runner::run_cases;

pub const SPEC: PropSpec = PropSpec {
    id: "C11",
    level: "exploration",
    rule: "cases = 1-4 links built by real transitions (linkgen specs: phase, receive age vs timeout, in-flight, queued, window, proof age, RTT baseline, weak / loss flags, CC target vs measured bitrate, NAK ages 0..40 s and bursts, connection age across 30 s) followed by 2-10 monitored enhanced selects with small state changes in between (sends, ACKs, NAKs, heard, clock steps 0/1/49/50/..., previous index = last result / arbitrary / out of range), quality on or off. For every call an independent oracle recomputes candidate set, unconstrained flag, scored set, base score, phase weight (0.8 warming), gate (0.02) and - from those and the observed quality / soft-cap factors - every score and the hysteresis decision; the traced factors must equal the oracle's, be finite and in range, the result must be the oracle's, and the same call repeated at once must return the same index. Non-trivial = >= 2 scored links; distinct = distinct (per-link gate bits, who was last, hysteresis outcome, result) vectors.",
    assumptions: &[
        "float comparisons use a 1e-9 relative tolerance; decisions within that tolerance of the 1.10 threshold or of a tie accept either outcome",
        "F1 (added after seeded defect C11b): 'its score' is read as a score of the link's present state - the quality factor used must lie within what the implementation's OWN calculate_quality_multiplier returns for this link over the last 1000 ms (20x the documented 50 ms cache interval), checked only when the link's NAK / RTT / establishment inputs have been constant for that long; the formula is not judged, only unbounded staleness",
        "the quality multiplier and the soft-cap factor are taken as observed (score-trace hook) and only held to their stated ranges, because the property bounds them without fixing their formulas; agreement with the documented formulas (30 s grace 1.1/0.98, 1-0.5*exp(-age/2000), burst x0.7, RTT bonus <= 1.03, 50 ms cache; headroom/target clamp) is reported under observed.info.* as information, never as a verdict",
        "'over its in-flight cap' is the implementation's own in_flight_cap_exceeded(); the documented BDP formula is compared as information only",
    ],
    floors: &[
        ("calls", 300_000, 10_000_000),
        ("calls.multi_scored", 100_000, 4_000_000),
        ("hysteresis.held_previous", 5_000, 200_000),
        ("hysteresis.held_within_15pct_of_threshold", 1_000, 40_000),
        ("hysteresis.switched", 5_000, 200_000),
        ("hysteresis.switched_within_15pct_of_threshold", 1_000, 40_000),
        ("last.was_skipped", 5_000, 200_000),
        ("gate.weak_or_loss_at_2pct", 5_000, 200_000),
        ("gate.overcap_excluded", 5_000, 200_000),
        ("gate.fallback_no_unconstrained", 5_000, 200_000),
        ("factor.warming_80pct", 5_000, 200_000),
        ("factor.softcap_at_floor", 5_000, 200_000),
        ("factor.softcap_between", 5_000, 200_000),
        ("quality.cache_hit", 5_000, 200_000),
        ("quality.recomputed", 50_000, 2_000_000),
        ("quality.burst_penalty", 1_000, 40_000),
        ("quality.grace_period", 5_000, 200_000),
        ("stability.repeats", 300_000, 10_000_000),
        ("F1.freshness_checked", 100_000, 2_000_000),
        ("F1.freshness_checked_against_window", 100, 2_000),
        ("ties.equal_best_scores", 1_000, 40_000),
    ],
};

#[derive(Clone, Copy)]
struct Cache {
    mult: f64,
    at: u64,
}

fn rel_eq(a: f64, b: f64) -> bool {
    if a == b {
        return true;
    }
    let d = (a - b).abs();
    d <= 1e-9 * a.abs().max(b.abs()).max(1e-300)
}

fn oracle_quality(c: &SrtlaConnection, now: u64, rep: &mut Report) -> f64 {
    let age = now.saturating_sub(c.connection_established_ms());
    if age < 30_000 {
        rep.count("quality.grace_period");
        return if c.total_nak_count() == 0 { 1.1 } else { 0.98 };
    }
    let q = if let Some(nak_age) = c.time_since_last_nak_ms(now) {
        let mut m = 1.0 - 0.5 * (-(nak_age as f64) / 2000.0).exp();
        if c.nak_burst_count() >= 5 && nak_age < 3000 {
            m *= 0.7;
            rep.count("quality.burst_penalty");
        }
        m
    } else if c.total_nak_count() == 0 {
        1.1
    } else {
        1.0
    };
    let srtt = c.get_smooth_rtt_ms();
    let bonus = if srtt <= 0.0 { 1.0 } else { (200.0 / srtt.max(50.0)).min(1.03).max(1.0) };
    q * bonus
}

fn oracle_overcap(c: &SrtlaConnection) -> bool {
    if c.cc_target_bps == 0 {
        return false;
    }
    let r = c.get_rtt_min_ms();
    let rtt_ms = if r.is_finite() && r > 0.0 { r } else { 1.0 };
    let bdp = (c.cc_target_bps as f64) * (rtt_ms / 1000.0) / 8.0 * 1.5;
    let cap = (bdp / 1316.0).floor().max(1.0).min(i32::MAX as f64) as i32;
    c.in_flight_packets > cap
}

fn oracle_softcap(c: &SrtlaConnection) -> f64 {
    if c.cc_target_bps == 0 {
        return 1.0;
    }
    let measured = c.bitrate.current_bitrate_bps;
    if measured <= 0.0 {
        return 1.0;
    }
    let cap = c.cc_target_bps as f64;
    ((cap - measured).max(0.0) / cap).clamp(0.1, 1.0)
}

struct Case {
    conns: Vec<SrtlaConnection>,
    cache: Vec<Cache>,
    seq: i32,
    /// per link: the quality-relevant state (NAK count / burst / last NAK time, smoothed RTT, establishment
    /// time) as seen at the previous monitored call, and the time since which it has not changed
    qstate: Vec<Option<([u64; 5], u64)>>,
}

/// Staleness the freshness check F1 tolerates: 20x the documented 50 ms cache interval.
const QUALITY_FRESHNESS_WINDOW_MS: u64 = 1000;

fn quality_state(c: &SrtlaConnection, now: u64) -> [u64; 5] {
    [
        c.total_nak_count() as u64,
        c.nak_burst_count() as u64,
        c.time_since_last_nak_ms(now).map(|a| now.saturating_sub(a)).unwrap_or(u64::MAX),
        c.get_smooth_rtt_ms().to_bits(),
        c.connection_established_ms(),
    ]
}

#[allow(clippy::too_many_arguments)]
fn monitored_call(cs: &mut Case, last: Option<usize>, now: u64, cfg: &srtla_core::config_snapshot::ConfigSnapshot, rep: &mut Report, sig: &mut Fnv) -> Option<usize> {
    let t = cfg.conn_timeout_ms;
    let quality_on = cfg.effective_quality_enabled();
    let r = select_connection_idx(&mut cs.conns, last, now, cfg);
    let trace = verif_trace::last();
    rep.eval();
    rep.count("calls");
    let n = cs.conns.len();
    // ---- oracle ----------------------------------------------------------------
    let cand: Vec<bool> = cs.conns.iter().map(|c| linkgen::usable(c, now, t) && !c.is_stall_gated()).collect();
    let overcap: Vec<bool> = cs.conns.iter().map(srtla_core::selection::enhanced::in_flight_cap_exceeded).collect();
    for (i, c) in cs.conns.iter().enumerate() {
        if oracle_overcap(c) != overcap[i] {
            rep.count("info.cap_formula_differs_from_documented_bdp_formula");
        }
    }
    let unconstrained = (0..n).any(|i| cand[i] && !cs.conns[i].weak && !cs.conns[i].loss_degraded && !overcap[i]);
    let scored: Vec<bool> = (0..n).map(|i| cand[i] && !(unconstrained && overcap[i])).collect();
    let mut scores: Vec<Option<f64>> = vec![None; n];
    let mut tr_iter = trace.iter();
    let mut bits_all = Vec::with_capacity(n);
    for i in 0..n {
        let c = &cs.conns[i];
        bits_all.push((cand[i] as u64) | (overcap[i] as u64) << 1 | (c.weak as u64) << 2 | (c.loss_degraded as u64) << 3 | (matches!(c.phase, LinkPhase::Warming { .. }) as u64) << 4);
        if !scored[i] {
            if cand[i] {
                rep.count("gate.overcap_excluded");
            }
            continue;
        }
        let denom = (c.in_flight_packets as i64 + c.batch_sender.queued_count() as i64 + 1).clamp(1, i32::MAX as i64);
        let base_i = (c.window as i64 / denom) as i32;
        let pw = if matches!(c.phase, LinkPhase::Warming { .. }) { 0.8 } else { 1.0 };
        if pw == 0.8 {
            rep.count("factor.warming_80pct");
        }
        let q = if quality_on {
            let ch = &mut cs.cache[i];
            if now.saturating_sub(ch.at) >= 50 {
                ch.mult = oracle_quality(c, now, rep);
                ch.at = now;
                rep.count("quality.recomputed");
            } else {
                rep.count("quality.cache_hit");
            }
            Some(ch.mult)
        } else {
            None
        };
        let sc = oracle_softcap(c);
        if sc == 0.1 {
            rep.count("factor.softcap_at_floor");
        } else if sc < 1.0 {
            rep.count("factor.softcap_between");
        }
        let gated = unconstrained && (c.weak || c.loss_degraded);
        let gate = if gated { 0.02 } else { 1.0 };
        if gated {
            rep.count("gate.weak_or_loss_at_2pct");
        } else if (c.weak || c.loss_degraded || overcap[i]) && !unconstrained {
            rep.count("gate.fallback_no_unconstrained");
        }
        let score = base_i as f64 * pw * q.unwrap_or(1.0) * sc * gate;
        scores[i] = Some(score);
        // ---- compare with the traced factors of the real call ---------------------
        match tr_iter.next() {
            Some(f) => {
                if f.idx != i {
                    rep.violation("C11.scored-set.mismatch", format!("now={now}: real call scored link {} where the oracle expects link {i} next (oracle scored set {scored:?}, candidates {cand:?}, overcap {overcap:?}, unconstrained {unconstrained})", f.idx));
                    return r;
                }
                let finite = f.phase_weight.is_finite() && f.soft_cap.is_finite() && f.gate.is_finite() && f.score.is_finite() && f.quality.is_none_or(|x| x.is_finite());
                if !finite {
                    rep.violation("C11.factor.non-finite", format!("now={now} link {i}: traced factors {f:?}"));
                }
                if let Some(qx) = f.quality
                    && !(0.35 - 1e-12..=1.1 * 1.03 + 1e-12).contains(&qx)
                {
                    rep.violation("C11.factor.quality-out-of-range", format!("now={now} link {i}: quality multiplier {qx} outside [0.35, 1.133]"));
                }
                // F1 freshness: "its score" is a score of the link's present state. The factor the
                // scheduler used must be the implementation's OWN quality function evaluated on this link
                // at some instant of the last second, provided the link's quality-relevant state has not
                // changed for that long (so only the clock differs). The formula itself is not judged.
                {
                    let st = quality_state(c, now);
                    let since = match cs.qstate[i] {
                        Some((prev, since)) if prev == st => since,
                        _ => now,
                    };
                    cs.qstate[i] = Some((st, since));
                    if let Some(qx) = f.quality
                        && now.saturating_sub(since) >= QUALITY_FRESHNESS_WINDOW_MS
                    {
                        rep.count("F1.freshness_checked");
                        let fresh = srtla_core::selection::calculate_quality_multiplier(c, now);
                        if !rel_eq(qx, fresh) {
                            let (mut lo, mut hi) = (fresh, fresh);
                            let mut tq = now - QUALITY_FRESHNESS_WINDOW_MS;
                            while tq < now {
                                let v = srtla_core::selection::calculate_quality_multiplier(c, tq);
                                lo = lo.min(v);
                                hi = hi.max(v);
                                tq += 1; // every integer millisecond: exact, the clock has ms granularity
                            }
                            rep.count("F1.freshness_checked_against_window");
                            if qx < lo - 1e-9 || qx > hi + 1e-9 {
                                rep.violation(
                                    "C11.quality.stale-beyond-1s",
                                    format!("now={now} link {i}: the scheduler scored this link with quality factor {qx}, but its own quality function gives {fresh} now and stays within [{lo}, {hi}] over the last {QUALITY_FRESHNESS_WINDOW_MS} ms, during which the link's NAK / RTT / age inputs did not change (unchanged since t={since})"),
                                );
                            }
                        }
                    }
                }
                if !(0.1..=1.0).contains(&f.soft_cap) {
                    rep.violation("C11.factor.softcap-out-of-range", format!("now={now} link {i}: soft-cap factor {} outside [0.1, 1]", f.soft_cap));
                }
                if f.base_score != base_i {
                    rep.violation("C11.factor.base-score", format!("now={now} link {i}: base score {} oracle {base_i} (window {}, in-flight {}, queued {})", f.base_score, c.window, c.in_flight_packets, c.batch_sender.queued_count()));
                }
                if f.phase_weight != pw {
                    rep.violation("C11.factor.phase-weight", format!("now={now} link {i}: phase weight {} oracle {pw} (phase {:?})", f.phase_weight, c.phase));
                }
                if f.quality.is_some() != q.is_some() {
                    rep.violation("C11.factor.quality-presence", format!("now={now} link {i}: quality factor {:?} but quality scoring effective = {quality_on}", f.quality));
                }
                if f.quality.zip(q).is_some_and(|(a, b)| !rel_eq(a, b)) {
                    // The property bounds the multiplier, it does not fix its formula or the cache
                    // interval: disagreement with the documented model is reported as information only.
                    rep.count("info.quality_differs_from_documented_model");
                    if let Some(a) = f.quality {
                        cs.cache[i].mult = a;
                    }
                }
                if !rel_eq(f.soft_cap, sc) {
                    rep.count("info.softcap_differs_from_documented_model");
                }
                // the score must be the product of the stated factors (observed quality and soft cap)
                let score = base_i as f64 * pw * f.quality.unwrap_or(1.0) * f.soft_cap * gate;
                scores[i] = Some(score);
                if f.gate != gate {
                    rep.violation("C11.factor.gate", format!("now={now} link {i}: gate factor {} oracle {gate} (weak {}, loss {}, unconstrained exists {unconstrained})", f.gate, c.weak, c.loss_degraded));
                }
                if !rel_eq(f.score, score) {
                    rep.violation("C11.score.mismatch", format!("now={now} link {i}: traced score {} oracle {score}", f.score));
                }
            }
            None => {
                rep.violation("C11.scored-set.mismatch", format!("now={now}: real call scored fewer links than the oracle (oracle scored set {scored:?}, trace {:?})", trace.iter().map(|f| f.idx).collect::<Vec<_>>()));
                return r;
            }
        }
    }
    if let Some(extra) = tr_iter.next() {
        rep.violation("C11.scored-set.mismatch", format!("now={now}: real call also scored link {} which the oracle excludes (candidates {cand:?}, overcap {overcap:?}, unconstrained {unconstrained})", extra.idx));
        return r;
    }
    // ---- decision ----------------------------------------------------------------
    let n_scored = scored.iter().filter(|s| **s).count();
    if n_scored >= 2 {
        rep.count("calls.multi_scored");
    }
    let mut best: Option<usize> = None;
    let mut best_s = -1.0f64;
    let mut ties = 0;
    for i in 0..n {
        if let Some(s) = scores[i] {
            if s > best_s {
                best_s = s;
                best = Some(i);
                ties = 0;
            } else if s == best_s {
                ties += 1;
            }
        }
    }
    if ties > 0 {
        rep.count("ties.equal_best_scores");
    }
    let last_valid = last.filter(|l| *l < n);
    let last_score = last_valid.and_then(|l| scores[l]);
    if last_valid.is_some() && last_score.is_none() {
        rep.count("last.was_skipped");
    }
    let mut expected = best;
    let mut near_threshold = false;
    let mut outcome = 0u64;
    if let (Some(l), Some(b)) = (last, best)
        && b != l
        && let Some(cur) = last_score
    {
        let thr = cur * 1.10;
        near_threshold = rel_eq(best_s, thr);
        let ratio = if cur > 0.0 { best_s / cur } else { f64::INFINITY };
        if best_s < thr {
            expected = Some(l);
            rep.count("hysteresis.held_previous");
            if ratio >= 1.10 * 0.85 {
                rep.count("hysteresis.held_within_15pct_of_threshold");
            }
            outcome = 1;
        } else {
            rep.count("hysteresis.switched");
            if ratio <= 1.10 * 1.15 {
                rep.count("hysteresis.switched_within_15pct_of_threshold");
            }
            outcome = 2;
        }
    }
    if r != expected && !(near_threshold && (r == best || r == last)) {
        // near-ties between two best candidates within tolerance
        let tie_ok = match (r, expected) {
            // equal scores (exactly or within tolerance): the property does not say which of them wins
            (Some(a), Some(b)) => scores.get(a).copied().flatten().zip(scores.get(b).copied().flatten()).is_some_and(|(x, y)| rel_eq(x, y)),
            _ => false,
        };
        if !tie_ok {
            let sig = match (r, last) {
                (Some(a), _) if a >= n || !scored[a] => {
                    if a < n && overcap[a] && unconstrained {
                        "C11.result.overcap-link-chosen-while-unconstrained-exists"
                    } else {
                        "C11.result.unscored-link-chosen"
                    }
                }
                (Some(a), Some(l)) if a != l && last_score.is_some() && scores[a].is_some_and(|s| s < last_score.unwrap() * 1.10) => "C11.hysteresis.left-previous-below-threshold",
                (Some(a), Some(l)) if a == l => "C11.hysteresis.held-previous-beyond-threshold",
                _ => "C11.result.not-argmax",
            };
            rep.violation(sig, format!("now={now} last={last:?}: real result {r:?}, oracle expects {expected:?}; oracle scores {scores:?} (best {best:?} = {best_s}, last score {last_score:?}, threshold x1.10)"));
        }
    }
    // property-level hysteresis statement, independent of `expected`
    if let (Some(a), Some(l)) = (r, last_valid)
        && a != l
        && a < n
        && let (Some(sa), Some(sl)) = (scores[a], scores[l])
        && sa < sl * 1.10
        && !rel_eq(sa, sl * 1.10)
    {
        rep.violation("C11.hysteresis.left-previous-below-threshold", format!("now={now}: left previously selected link {l} (score {sl}) for link {a} (score {sa}) although {sa} < 1.10 x {sl}"));
    }
    // stability: same call again, at once
    let r2 = select_connection_idx(&mut cs.conns, last, now, cfg);
    rep.count("stability.repeats");
    if r2 != r {
        rep.violation("C11.stability.repeat-differs", format!("now={now} last={last:?}: first call {r:?}, immediate repeat {r2:?}"));
    }
    rep.t(|| format!("now={now} last={last:?} -> {r:?} scores={scores:?} cand={cand:?} overcap={overcap:?} unconstrained={unconstrained}"));
    for b in &bits_all {
        sig.u64(*b);
    }
    sig.u64(last.map(|l| l as u64 + 1).unwrap_or(0));
    sig.u64(outcome);
    sig.u64(r.map(|x| x as u64 + 1).unwrap_or(0));
    if n_scored >= 2 {
        rep.distinct(sig.finish());
    }
    r
}

pub fn run_case(rng: &mut Rng, rep: &mut Report) {
    let opts = GenOpts { enhanced_only: true, one_usable_bias: false, no_extreme: false };
    let mut cfg = linkgen::gen_config(rng, &opts);
    cfg.quality_enabled = rng.chance(3, 4);
    let n = 1 + rng.usize_below(4);
    let now0 = 20_000_000 + rng.below(1_000_000);
    let mut specs = Vec::new();
    for _ in 0..n {
        let want = if rng.chance(3, 4) { Some(true) } else { None };
        let mut sp = linkgen::gen_link_spec(rng, &cfg, &opts, want);
        if rng.chance(1, 2) {
            // comparable scores: similar window / in-flight so that hysteresis matters
            sp.window = 20_000 + (rng.below(5) as i32) * 100;
            sp.inflight_real = 18 + rng.below(5) as u32;
            sp.inflight_extreme = None;
        }
        specs.push(sp);
    }
    if n >= 2 && rng.chance(1, 3) {
        // near-twins: clones of link 0 with windows 0..15 % apart -> scores around the 1.10 threshold and exact ties
        let mut base = linkgen::gen_link_spec(rng, &cfg, &opts, Some(true));
        base.inflight_extreme = None;
        base.inflight_real = rng.below(30) as u32;
        base.window = 10_000 + rng.below(30_000) as i32;
        base.weak = false;
        base.loss_degraded = false;
        for sp in specs.iter_mut() {
            let mut c = base.clone();
            let f = *rng.pick(&[1.0f64, 1.0, 1.02, 1.05, 1.09, 1.10, 1.11, 1.15]);
            c.window = ((base.window as f64 * f) as i32).clamp(1000, 60_000);
            *sp = c;
        }
    }
    let conns: Vec<SrtlaConnection> = specs.iter().enumerate().map(|(i, s)| linkgen::build_link(i, s, now0)).collect();
    let mut conns = conns;
    // some links sit just before the 30 s grace boundary, so that the case crosses it
    let long_steps = rng.chance(1, 3);
    if long_steps {
        for c in conns.iter_mut() {
            if rng.chance(1, 2) {
                c.reconnection.connection_established_ms = now0.saturating_sub(26_000 + rng.below(5_000));
            }
        }
    }
    let mut cs = Case { cache: vec![Cache { mult: 1.0, at: 0 }; n], conns, seq: 9_000_000, qstate: vec![None; n] };
    let classic = false;
    let mut now = now0;
    let mut last: Option<usize> = match rng.below(4) {
        0 => None,
        1 => Some(n + rng.usize_below(2)),
        _ => Some(rng.usize_below(n)),
    };
    let calls = 2 + rng.usize_below(9);
    let mut sig = Fnv::new();
    for _ in 0..calls {
        let r = monitored_call(&mut cs, last, now, &cfg, rep, &mut sig);
        // evolve
        match rng.below(4) {
            0 => last = r,
            1 => last = Some(rng.usize_below(n)),
            _ => {
                if r.is_some() {
                    last = r
                }
            }
        }
        for _ in 0..rng.below(3) {
            let l = rng.usize_below(n);
            let c = &mut cs.conns[l];
            match rng.below(8) {
                0 => {
                    cs.seq += 1;
                    c.register_packet(cs.seq, now);
                }
                1 => {
                    if let Some(s) = c.packet_log.keys().next().copied() {
                        c.handle_srtla_ack_specific(s, classic, now);
                    }
                }
                2 => {
                    if let Some(s) = c.packet_log.keys().next().copied() {
                        c.handle_nak(s, now);
                    }
                }
                3 => {
                    if c.connected {
                        c.last_received = Some(now);
                    }
                }
                4 if long_steps && rng.chance(1, 2) => {
                    // an RTT sample moves the smoothed RTT (and with it the quality bonus)
                    let ms = *rng.pick(&[20u64, 60, 120, 180, 199, 250, 600]);
                    c.rtt.update_estimate(ms, now);
                }
                4 => c.weak = !c.weak,
                5 => c.loss_degraded = !c.loss_degraded,
                6 => {
                    let pkt = [0u8; 100];
                    cs.seq += 1;
                    let _ = c.queue_data_packet(&pkt, Some(cs.seq as u32), now);
                }
                _ => c.window = (c.window + *rng.pick(&[-100, 1, 29, 30])).clamp(1000, 60_000),
            }
        }
        now += if long_steps { *rng.pick(&[0u64, 50, 400, 1000, 1200, 2500, 4000]) } else { *rng.pick(&[0u64, 0, 1, 10, 49, 50, 51, 200, 1000]) };
    }
    if rep.wants_sample() && n >= 2 {
        rep.sample(serde_json::json!({"config": format!("{cfg:?}"), "links": specs.iter().map(|s| format!("{s:?}")).collect::<Vec<_>>(), "monitored_calls": calls}));
    }
}

pub fn run(cfg: &RunCfg) -> Report {
    let cases = cfg.cases(1_500_000, 150_000_000);
    run_cases(cfg, 0, cases, Duration::from_secs(3600), |_c, rng, rep| run_case(rng, rep))
}
