//! C17 — weak-link classifier cannot starve a link forever or flap on a blip.
//! Tick-by-tick monitor over the real `WeakLinkFilter::classify`.

use std::collections::HashMap;
use std::time::Duration;

use srtla_core::connection::SrtlaConnection;
use srtla_core::selection::classifier::{WeakLinkFilter, WeakReason};

use crate::prng::{Fnv, Rng};
use crate::report::{PropSpec, Report, RunCfg};
use crate::runner::run_cases;

pub const SPEC: PropSpec = PropSpec {
    id: "C17",
    level: "exploration",
    rule: "tick-by-tick histories (50-500 ticks) over 1-4 real connections whose RTT state comes from real samples (rtt.update_estimate, so queue_building_suspected() is the real detector) and whose bitrate / connected fields are stamped the way the shell stamps them: bitrates crossing the 100 kbit/s floor in both directions, shares hovering at 1/4 and 3/4 of fair share +- a few permille, one-tick and two-tick RTT spikes, slow queue ramps, links joining / leaving / idling, a starved link held at 0 for 40 ticks. Monitor per tick: W1 a disconnected link is never weak and nobody is weak while the connected links' total is < 100 kbit/s; W2 a (weak, HighRtt | QueueBuilding) verdict requires the delay signal (RTT over the returned tier, or the real queue detector) at the previous tick as well; W3 runs of consecutive (weak, LowShare | NoTraffic) verdicts never exceed 15 and the three verdicts after a 15-run are not weak (bypass / disconnect restart the count); W4 a not-weak -> (weak, LowShare) edge requires share < 1/4 of fair share, a (weak, LowShare | NoTraffic) -> not-weak edge outside probation / bypass / disconnect requires share >= 3/4 of fair share. Shares are recomputed by the monitor from the inputs. Non-trivial = history with a weak verdict; distinct = distinct (verdict vector, bypassed) 3-grams.",
    assumptions: &[
        "share thresholds are compared at permille granularity with +-1 permille tolerance (integer rounding of 250/n, 750/n for n = 3, 4)",
        "RTT vs tier is compared permissively at the fractional boundary (integer truncation of the smoothed RTT)",
    ],
    floors: &[
        ("ticks", 2_000_000, 80_000_000),
        ("W1.bypassed_ticks", 20_000, 800_000),
        ("W1.disconnected_link_ticks", 20_000, 800_000),
        ("W2.delay_weak_verdicts", 5_000, 200_000),
        ("W2.one_tick_blip_suppressed", 2_000, 80_000),
        ("W2.two_tick_signal_honoured", 2_000, 80_000),
        ("W2.queue_building_signal", 500, 20_000),
        ("W3.probation_windows", 2_000, 80_000),
        ("W3.runs_of_15", 2_000, 80_000),
        ("W4.enter_edges", 2_000, 80_000),
        ("W4.leave_edges", 2_000, 80_000),
        ("W4.share_within_5permille_of_enter", 1_000, 40_000),
        ("W4.share_within_5permille_of_leave", 1_000, 40_000),
    ],
};

#[derive(Default, Clone)]
struct LinkMon {
    prev_present: bool,
    prev_weak: bool,
    prev_reason_share: bool,
    prev_signal: bool,
    share_run: u32,
    probation_left: u32,
}

fn mk(id: u64, now: u64) -> SrtlaConnection {
    let mut c = SrtlaConnection::new_registering(id, format!("L{id}"), std::net::IpAddr::V4(std::net::Ipv4Addr::new(127, 0, 0, 10)), now);
    c.clear_pre_registration_state(now);
    c.connected = true;
    c.last_received = Some(now);
    c.reconnection.connection_established_ms = now;
    c
}

pub fn run_history(rng: &mut Rng, rep: &mut Report) {
    let n = 1 + rng.usize_below(4);
    let mut now = 4_000_000 + rng.below(1_000_000);
    let mut conns: Vec<SrtlaConnection> = (0..n).map(|i| mk(900 + i as u64, now)).collect();
    let mut filt = WeakLinkFilter::new();
    let mut mons: HashMap<u64, LinkMon> = HashMap::new();
    let ticks = 50 + rng.usize_below(451);
    // per-link generators
    let mut base_rtt: Vec<f64> = (0..n).map(|_| *rng.pick(&[15.0, 40.0, 90.0, 250.0, 700.0])).collect();
    let mut rtt_script: Vec<(u64, u32)> = vec![(0, 0); n]; // (mode, ticks left)
    let mut bps_script: Vec<(u64, u32)> = vec![(0, 0); n];
    let total_levels = [40_000.0, 99_999.0, 100_000.0, 150_000.0, 2_000_000.0, 2_000_000.0, 9_000_000.0, 9_000_000.0, 30_000_000.0];
    let mut total = *rng.pick(&total_levels);
    let mut kinds: Vec<u64> = Vec::new();
    let mut any_weak = false;
    let mut sample: Vec<String> = Vec::new();
    for k in 0..ticks {
        now += 1000 + rng.below(100);
        if rng.chance(1, 25) {
            total = *rng.pick(&total_levels);
        }
        // ---- inputs -----------------------------------------------------------------------------------------
        let n_conn_now = conns.iter().filter(|c| c.connected).count().max(1);
        let fair = 1.0 / n_conn_now as f64;
        let mut weights: Vec<f64> = Vec::with_capacity(n);
        for i in 0..n {
            // connectivity
            if conns[i].connected {
                if rng.chance(1, 80) {
                    conns[i].connected = false;
                }
            } else if rng.chance(1, 8) {
                conns[i].connected = true;
            }
            // RTT script
            if rtt_script[i].1 == 0 {
                rtt_script[i] = (rng.below(8), 1 + rng.below(20) as u32);
                if rng.chance(1, 10) {
                    base_rtt[i] = *rng.pick(&[15.0, 40.0, 90.0, 250.0, 700.0]);
                }
            }
            rtt_script[i].1 -= 1;
            let r = match rtt_script[i].0 {
                0 | 1 | 2 => base_rtt[i],
                3 => {
                    // one-tick spike
                    rtt_script[i] = (0, rtt_script[i].1.min(6));
                    base_rtt[i] * 12.0
                }
                4 => {
                    // two-tick spike
                    if rtt_script[i].1 % 5 < 2 { base_rtt[i] * 12.0 } else { base_rtt[i] }
                }
                5 => base_rtt[i] * (1.0 + 0.06 * (20 - rtt_script[i].1.min(20)) as f64), // slow queue ramp
                6 => base_rtt[i] * 8.0,                                                    // sustained high
                _ => base_rtt[i] * (0.9 + 0.3 * rng.f64()),
            };
            // several samples per tick so that the Kalman estimate follows the script
            for j in 0..4 {
                conns[i].rtt.update_estimate(r.max(1.0) as u64, now - 900 + j * 200);
            }
            // share script: weights relative to fair share
            if bps_script[i].1 == 0 {
                bps_script[i] = (rng.below(9), 1 + rng.below(45) as u32);
            }
            bps_script[i].1 -= 1;
            let w = match bps_script[i].0 {
                0 | 1 => fair,
                2 => 0.0, // starved / idle
                3 => fair * (0.25 + (rng.below(11) as f64 - 5.0) / 1000.0 * n_conn_now as f64 / 1.0),
                4 => fair * (0.75 + (rng.below(11) as f64 - 5.0) / 1000.0 * n_conn_now as f64 / 1.0),
                5 => fair * 0.1,
                6 => fair * 0.5,
                7 => fair * 2.0,
                _ => fair * rng.f64() * 1.5,
            };
            weights.push(w.max(0.0));
        }
        // turn weights into bitrates: exact shares for the hovering links, the rest scaled to fill the total
        let hover: f64 = (0..n).filter(|i| conns[*i].connected && matches!(bps_script[*i].0, 2..=6)).map(|i| weights[i]).sum();
        let free: f64 = (0..n).filter(|i| conns[*i].connected && !matches!(bps_script[*i].0, 2..=6)).map(|i| weights[i]).sum();
        for i in 0..n {
            let w = if matches!(bps_script[i].0, 2..=6) || free <= 0.0 { weights[i] } else { weights[i] * ((1.0 - hover).max(0.05) / free) };
            conns[i].bitrate.current_bitrate_bps = (w * total).max(0.0);
        }
        // ---- call under test -------------------------------------------------------------------------------------
        let res = filt.classify(&conns);
        rep.eval();
        rep.count("ticks");
        // ---- monitor ------------------------------------------------------------------------------------------------
        let connected: Vec<bool> = conns.iter().map(|c| c.connected).collect();
        let total_bps: f64 = conns.iter().filter(|c| c.connected).map(|c| c.bitrate.current_bitrate_bps.max(0.0)).sum();
        let n_conn = connected.iter().filter(|c| **c).count();
        let bypass = total_bps < 100_000.0 || n_conn == 0;
        if bypass {
            rep.count("W1.bypassed_ticks");
        }
        if res.per_link.len() != conns.len() {
            rep.violation("C17.result.length", format!("tick {k}: {} verdicts for {} links", res.per_link.len(), conns.len()));
            continue;
        }
        let mut vec_code = 0u64;
        for (i, c) in conns.iter().enumerate() {
            let v = &res.per_link[i];
            let m = mons.entry(c.conn_id).or_default();
            let share_reason = matches!(v.reason, WeakReason::LowShare | WeakReason::NoTraffic);
            let delay_reason = matches!(v.reason, WeakReason::HighRtt | WeakReason::QueueBuilding);
            vec_code = vec_code * 7 + v.weak as u64 * 3 + share_reason as u64 + delay_reason as u64 * 2;
            if v.conn_id != c.conn_id {
                rep.violation("C17.result.order", format!("tick {k}: verdict #{i} is for {:x}", v.conn_id));
            }
            // ---- W1 ---------------------------------------------------------------------------------------------------
            if !c.connected {
                rep.count("W1.disconnected_link_ticks");
                if v.weak {
                    rep.violation("C17.W1.disconnected-link-weak", format!("tick {k}: link {i} is disconnected but reported weak ({:?})", v.reason));
                }
            }
            if bypass && v.weak {
                rep.violation("C17.W1.weak-under-throughput-floor", format!("tick {k}: total throughput of connected links {total_bps:.0} bit/s < 100000 but link {i} reported weak ({:?})", v.reason));
            }
            let present = c.connected && !bypass;
            let share = if total_bps > 0.0 { c.bitrate.current_bitrate_bps.max(0.0) / total_bps } else { 0.0 };
            let share_pm = share * 1000.0;
            let enter_pm = 250.0 / n_conn.max(1) as f64;
            let leave_pm = 750.0 / n_conn.max(1) as f64;
            // delay signal now (permissive at the fractional boundary)
            let rtt = c.get_smooth_rtt_ms();
            let qb = c.queue_building_suspected();
            let signal_now = present && (rtt > res.selected_delay_ms as f64 || qb);
            if present {
                if (share_pm - enter_pm).abs() <= 5.0 {
                    rep.count("W4.share_within_5permille_of_enter");
                }
                if (share_pm - leave_pm).abs() <= 5.0 {
                    rep.count("W4.share_within_5permille_of_leave");
                }
                // ---- W2 -----------------------------------------------------------------------------------------------
                if v.weak && delay_reason {
                    any_weak = true;
                    rep.count("W2.delay_weak_verdicts");
                    if !signal_now {
                        rep.violation("C17.W2.delay-weak-without-signal", format!("tick {k}: link {i} weak for {:?} but RTT {rtt:.1} <= tier {} and no queue building", v.reason, res.selected_delay_ms));
                    }
                    if !(m.prev_present && m.prev_signal) {
                        rep.violation("C17.W2.delay-weak-on-first-tick-of-signal", format!("tick {k}: link {i} marked weak for {:?} although the delay signal was not present at the previous tick (RTT {rtt:.1}, tier {})", v.reason, res.selected_delay_ms));
                    } else if !m.prev_weak {
                        rep.count("W2.two_tick_signal_honoured");
                    }
                    if qb && rtt <= res.selected_delay_ms as f64 {
                        rep.count("W2.queue_building_signal");
                    }
                }
                if m.prev_present && m.prev_signal && !signal_now && !m.prev_weak && !v.weak {
                    rep.count("W2.one_tick_blip_suppressed");
                }
                // ---- W3 -----------------------------------------------------------------------------------------------
                if m.probation_left > 0 {
                    if v.weak {
                        rep.violation("C17.W3.weak-inside-probation", format!("tick {k}: link {i} reported weak ({:?}) although it just completed 15 consecutive low-share / no-traffic verdicts ({} probation verdicts outstanding)", v.reason, m.probation_left));
                        m.probation_left = 0;
                    } else {
                        m.probation_left -= 1;
                        if m.probation_left == 0 {
                            rep.count("W3.probation_windows");
                        }
                    }
                    m.share_run = 0;
                } else if v.weak && share_reason {
                    any_weak = true;
                    m.share_run += 1;
                    if m.share_run > 15 {
                        rep.violation("C17.W3.starved-beyond-15", format!("tick {k}: link {i} has been reported weak for low share / no traffic {} ticks in a row", m.share_run));
                        m.share_run = 0;
                    } else if m.share_run == 15 {
                        rep.count("W3.runs_of_15");
                        m.probation_left = 3;
                        m.share_run = 0;
                    }
                } else {
                    m.share_run = 0;
                }
                // ---- W4 -------------------------------------------------------------------------------------------------
                if !m.prev_weak && v.weak && v.reason == WeakReason::LowShare {
                    rep.count("W4.enter_edges");
                    if share_pm >= enter_pm.floor() + 1.0 + 1e-6 {
                        rep.violation("C17.W4.entered-above-quarter-share", format!("tick {k}: link {i} entered weak (LowShare) at share {share_pm:.2} permille; a quarter of fair share is {enter_pm:.2} ({n_conn} connected links)"));
                    }
                }
                if m.prev_weak && m.prev_reason_share && !v.weak && m.probation_left == 0 && !(m.share_run == 0 && m.prev_present && false) {
                    // leaving share-weak outside probation
                    let in_probation_now = v.reason == WeakReason::Healthy && m.probation_left == 0 && m.prev_probation_just_started();
                    if !in_probation_now {
                        rep.count("W4.leave_edges");
                        if share_pm < leave_pm.floor() - 1.0 - 1e-6 {
                            rep.violation("C17.W4.left-below-three-quarter-share", format!("tick {k}: link {i} left weak at share {share_pm:.2} permille; three quarters of fair share is {leave_pm:.2} ({n_conn} connected links)"));
                        }
                    }
                }
            } else {
                // bypass / disconnect: not-weak anyway, history restarts
                m.share_run = 0;
                m.probation_left = 0;
            }
            m.prev_present = present;
            m.prev_weak = v.weak;
            m.prev_reason_share = v.weak && share_reason;
            m.prev_signal = signal_now;
        }
        kinds.push(vec_code * 2 + bypass as u64);
        if sample.len() < 25 {
            sample.push(format!("total={total_bps:.0} tier={} verdicts={:?}", res.selected_delay_ms, res.per_link.iter().map(|v| (v.weak, v.reason, v.share_permille)).collect::<Vec<_>>()));
        }
        rep.t(|| format!("tick {k} total={total_bps:.0} tier={} links (conn, bps, rtt, weak, reason): {:?}", res.selected_delay_ms, conns.iter().zip(res.per_link.iter()).map(|(c, v)| (c.connected, c.bitrate.current_bitrate_bps as u64, c.get_smooth_rtt_ms() as u64, v.weak, v.reason)).collect::<Vec<_>>()));
    }
    if any_weak {
        for w in kinds.windows(3) {
            let mut f = Fnv::new();
            for x in w {
                f.u64(*x);
            }
            rep.distinct(f.finish());
        }
        if rep.wants_sample() {
            rep.sample(serde_json::json!({"links": n, "ticks": ticks, "first_ticks": sample}));
        }
    }
}

impl LinkMon {
    /// The monitor arms its own probation at the 15th verdict, so a not-weak verdict right after it
    /// is the probation (handled in the W3 branch before W4 is reached); kept for clarity.
    fn prev_probation_just_started(&self) -> bool {
        false
    }
}

pub fn run(cfg: &RunCfg) -> Report {
    let cases = cfg.cases(100_000, 6_000_000);
    run_cases(cfg, 0, cases, Duration::from_secs(3600), |_c, rng, rep| run_history(rng, rep))
}
