//! C10 — classic mode reproduces the reference srtla_send algorithm.
//! E1 closed-loop runs in classic mode with the stall guard off, in lock-step with
//! the integer reference model in sim/classic_ref.rs.

use std::time::Duration;

use srtla_core::config_snapshot::ConfigSnapshot;
use srtla_core::mode::SchedulingMode;

use crate::report::{PropSpec, Report, RunCfg};
use crate::runner::run_cases;
use crate::sim::classic_ref::ClassicRef;
use crate::sim::stream::{Faults, Monitor, StreamOpts, run_stream};

pub const SPEC: PropSpec = PropSpec {
    id: "C10",
    level: "exploration",
    rule: "seeded closed-loop E1 runs in classic mode with the stall guard off (1-4 uplinks, real handshake, real arms, virtual clock) starting from an arbitrary window vector in [1000, 60000]; client stream with data, control, 10-30% retransmit-flagged data and open critical windows; the sim receiver produces SRTLA ACK lists, cumulative ACKs and NAKs from what it actually received under modelled loss and black-holed links; quality scoring flag on or off. A ~150-line integer reference model (window, in-flight set, queued list per link; select = first index maximising window/(in_flight+queued+1) over usable links; per SRTLA-ACK entry: holder drops it, +29 iff in_flight x 1000 > window, then +1 on every connected heard link; NAK -100 floored; cumulative ACK drops <= a; housekeeping changes no window; reset -> 20000) runs in lock-step: the routed link of every datagram and the whole (window, in-flight, queued) vector after every arm must equal the model. Non-trivial = decision with >= 2 usable links; distinct = distinct (score vector, packet kind) hashes.",
    assumptions: &[
        "usable(link) = connected, registered, heard within the timeout, read from the pre-arm snapshot",
        "NAK charging follows the sender's documented ownership rule (remembered owner for 5 s, else first holder); C05 checks that rule itself",
        "after a reported mismatch the model re-synchronises from the real state at the next arm with empty queues",
    ],
    floors: &[
        ("sim.sessions_established", 32, 1000),
        ("c10.decisions_with_two_usable", 10_000, 300_000),
        ("c10.decisions_with_distinct_scores", 10_000, 300_000),
        ("c10.decisions_with_tie", 1_000, 30_000),
        ("c10.decisions_retransmit_or_critical", 1_000, 30_000),
        ("c10.srtla_ack_entries", 10_000, 300_000),
        ("c10.ack.plus29", 1_000, 30_000),
        ("c10.nak_charged", 500, 15_000),
        ("c10.cumulative_acks", 1_000, 30_000),
        ("c10.housekeeping_arms", 500, 15_000),
        ("c10.window_at_floor", 100, 3_000),
        ("c10.window_at_ceiling", 100, 3_000),
    ],
};

pub fn run_case(rng: &mut crate::prng::Rng, rep: &mut Report) {
    let timeout = *rng.pick(&[2500u64, 5000, 5000, 15_000]);
    let sc = ConfigSnapshot { mode: SchedulingMode::Classic, quality_enabled: rng.chance(1, 2), stall_deselect: false, stall_min_in_flight: 32, stall_ack_stale_ms: 3000, conn_timeout_ms: timeout };
    let n_links = 1 + rng.usize_below(4);
    let windows: Vec<i32> = (0..n_links)
        .map(|_| match rng.below(6) {
            0 => 1000,
            1 => 60_000,
            2 => 1000 + rng.below(300) as i32,
            3 => 59_900 + rng.below(101) as i32,
            _ => 1000 + rng.below(59_001) as i32,
        })
        .collect();
    let opts = StreamOpts { n_links, cfg: sc, ticks: 5000, probing: rng.chance(1, 2), faults: if rng.chance(1, 2) { Faults::Paths } else { Faults::None }, retransmit_pct: 10 + rng.below(20), control_pct: 5, critical_windows: true, big_jumps: false, initial_windows: Some(windows), loss_permille: *rng.pick(&[0, 10, 40, 100]), stall_min_in_flight_small: false, echo_fuzz: false, rate_pct: 100, short_sends: false };
    let want_sample = rep.wants_sample();
    let desc = format!("{opts:?}");
    let mut m = ClassicRef::new(timeout);
    let mut mons: [&mut dyn Monitor; 1] = [&mut m];
    let ok = run_stream(opts, rng, &mut mons, rep);
    if ok && want_sample {
        rep.sample(serde_json::json!({"run": desc}));
    }
}

pub fn run(cfg: &RunCfg) -> Report {
    let cases = cfg.cases(64, 2000);
    run_cases(cfg, 0, cases, Duration::from_secs(3600), |_c, rng, rep| run_case(rng, rep))
}
