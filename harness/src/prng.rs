//! Small deterministic PRNG (xoshiro256**) — no external crates, stable across
//! platforms, so a (seed, property, shard, case) tuple regenerates a case
//! byte-for-byte.

#[derive(Clone, Debug)]
pub struct Rng {
    s: [u64; 4],
}

fn splitmix(x: &mut u64) -> u64 {
    *x = x.wrapping_add(0x9E37_79B9_7F4A_7C15);
    let mut z = *x;
    z = (z ^ (z >> 30)).wrapping_mul(0xBF58_476D_1CE4_E5B9);
    z = (z ^ (z >> 27)).wrapping_mul(0x94D0_49BB_1331_11EB);
    z ^ (z >> 31)
}

impl Rng {
    pub fn new(seed: u64) -> Self {
        let mut x = seed;
        let s = [
            splitmix(&mut x),
            splitmix(&mut x),
            splitmix(&mut x),
            splitmix(&mut x),
        ];
        Rng { s }
    }

    /// Derive an independent stream from a seed and a list of labels.
    pub fn derive(seed: u64, labels: &[u64]) -> Self {
        let mut x = seed ^ 0xD1B5_4A32_D192_ED03;
        let mut acc = splitmix(&mut x);
        for l in labels {
            let mut y = acc ^ l.wrapping_mul(0x2545_F491_4F6C_DD1D);
            acc = splitmix(&mut y);
        }
        Rng::new(acc)
    }

    #[inline]
    pub fn next_u64(&mut self) -> u64 {
        let result = self.s[1].wrapping_mul(5).rotate_left(7).wrapping_mul(9);
        let t = self.s[1] << 17;
        self.s[2] ^= self.s[0];
        self.s[3] ^= self.s[1];
        self.s[1] ^= self.s[2];
        self.s[0] ^= self.s[3];
        self.s[2] ^= t;
        self.s[3] = self.s[3].rotate_left(45);
        result
    }

    #[inline]
    pub fn next_u32(&mut self) -> u32 {
        (self.next_u64() >> 32) as u32
    }

    /// Uniform in 0..n (n > 0).
    #[inline]
    pub fn below(&mut self, n: u64) -> u64 {
        debug_assert!(n > 0);
        // multiply-shift; bias is irrelevant for test generation
        ((self.next_u64() as u128 * n as u128) >> 64) as u64
    }

    #[inline]
    pub fn usize_below(&mut self, n: usize) -> usize {
        self.below(n as u64) as usize
    }

    /// Uniform in lo..=hi.
    #[inline]
    pub fn range(&mut self, lo: u64, hi: u64) -> u64 {
        debug_assert!(hi >= lo);
        if hi == u64::MAX && lo == 0 {
            return self.next_u64();
        }
        lo + self.below(hi - lo + 1)
    }

    #[inline]
    pub fn irange(&mut self, lo: i64, hi: i64) -> i64 {
        debug_assert!(hi >= lo);
        lo + self.below((hi - lo) as u64 + 1) as i64
    }

    /// True with probability num/den.
    #[inline]
    pub fn chance(&mut self, num: u64, den: u64) -> bool {
        self.below(den) < num
    }

    #[inline]
    pub fn f64(&mut self) -> f64 {
        (self.next_u64() >> 11) as f64 / (1u64 << 53) as f64
    }

    #[inline]
    pub fn pick<'a, T>(&mut self, xs: &'a [T]) -> &'a T {
        &xs[self.usize_below(xs.len())]
    }

    /// Pick an index according to integer weights.
    pub fn weighted(&mut self, weights: &[u32]) -> usize {
        let total: u64 = weights.iter().map(|w| *w as u64).sum();
        let mut r = self.below(total.max(1));
        for (i, w) in weights.iter().enumerate() {
            if r < *w as u64 {
                return i;
            }
            r -= *w as u64;
        }
        weights.len() - 1
    }

    pub fn fill(&mut self, buf: &mut [u8]) {
        let mut i = 0;
        while i < buf.len() {
            let v = self.next_u64().to_le_bytes();
            let n = (buf.len() - i).min(8);
            buf[i..i + n].copy_from_slice(&v[..n]);
            i += n;
        }
    }

    pub fn bytes(&mut self, n: usize) -> Vec<u8> {
        let mut v = vec![0u8; n];
        self.fill(&mut v);
        v
    }

    pub fn shuffle<T>(&mut self, xs: &mut [T]) {
        for i in (1..xs.len()).rev() {
            let j = self.usize_below(i + 1);
            xs.swap(i, j);
        }
    }
}

/// FNV-1a over bytes — used for "distinct case" hashing.
#[derive(Clone, Copy)]
pub struct Fnv(pub u64);

impl Default for Fnv {
    fn default() -> Self {
        Fnv(0xcbf2_9ce4_8422_2325)
    }
}

impl Fnv {
    pub fn new() -> Self {
        Self::default()
    }
    #[inline]
    pub fn byte(&mut self, b: u8) {
        self.0 ^= b as u64;
        self.0 = self.0.wrapping_mul(0x0000_0100_0000_01B3);
    }
    #[inline]
    pub fn bytes(&mut self, bs: &[u8]) {
        for b in bs {
            self.byte(*b);
        }
    }
    #[inline]
    pub fn u64(&mut self, v: u64) {
        self.bytes(&v.to_le_bytes());
    }
    #[inline]
    pub fn i64(&mut self, v: i64) {
        self.u64(v as u64);
    }
    #[inline]
    pub fn str(&mut self, s: &str) {
        self.bytes(s.as_bytes());
        self.byte(0xff);
    }
    pub fn finish(&self) -> u64 {
        self.0
    }
}

pub fn hash_u64s(xs: &[u64]) -> u64 {
    let mut h = Fnv::new();
    for x in xs {
        h.u64(*x);
    }
    h.finish()
}
