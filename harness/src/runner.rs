//! Parallel, deterministic case runner.
//!
//! A property supplies `total` cases and a closure `run(case_idx, &mut Rng, &mut
//! Report)`. Case `i` always uses the PRNG stream derived from (seed, property,
//! i), so results do not depend on the thread count and any case can be replayed
//! alone. Panics inside a case are caught and reported as violations with the
//! signature `panic`.

use std::cell::RefCell;
use std::panic::{AssertUnwindSafe, catch_unwind};
use std::sync::atomic::{AtomicBool, AtomicU64, Ordering};
use std::sync::{Arc, Mutex};
use std::time::{Duration, Instant};

use crate::prng::{Fnv, Rng};
use crate::report::{Report, RunCfg};

thread_local! {
    static LAST_PANIC: RefCell<Option<String>> = const { RefCell::new(None) };
}

pub fn install_quiet_panic_hook() {
    std::panic::set_hook(Box::new(|info| {
        let loc = info
            .location()
            .map(|l| format!("{}:{}", l.file(), l.line()))
            .unwrap_or_default();
        let msg = if let Some(s) = info.payload().downcast_ref::<&str>() {
            s.to_string()
        } else if let Some(s) = info.payload().downcast_ref::<String>() {
            s.clone()
        } else {
            "<non-string panic>".to_string()
        };
        LAST_PANIC.with(|p| *p.borrow_mut() = Some(format!("{msg} @ {loc}")));
    }));
}

pub fn take_last_panic() -> Option<String> {
    LAST_PANIC.with(|p| p.borrow_mut().take())
}

fn prop_hash(prop: &str) -> u64 {
    let mut h = Fnv::new();
    h.str(prop);
    h.finish()
}

pub fn case_rng(cfg: &RunCfg, stream: u64, case: u64) -> Rng {
    Rng::derive(cfg.seed, &[prop_hash(&cfg.prop), stream, case])
}

/// Run `total` cases of one workload "stream" across `cfg.threads` threads.
///
/// `budget` is a generous wall-clock watchdog for the whole stream: when it
/// expires no new cases are started and the run is marked inconclusive (never a
/// violation).
pub fn run_cases<F>(cfg: &RunCfg, stream: u64, total: u64, budget: Duration, run: F) -> Report
where
    F: Fn(u64, &mut Rng, &mut Report) + Sync,
{
    let start = Instant::now();
    if let Some(c) = cfg.replay_case {
        // replay: stream is encoded in the high bits of the case id
        let (s, idx) = (c >> 48, c & ((1u64 << 48) - 1));
        let mut rep = Report::new();
        if s != stream {
            return rep;
        }
        rep.tracing = true;
        rep.cur_case = c;
        let mut rng = case_rng(cfg, stream, idx);
        let r = catch_unwind(AssertUnwindSafe(|| run(idx, &mut rng, &mut rep)));
        if r.is_err() {
            let msg = take_last_panic().unwrap_or_default();
            rep.violation("panic", format!("panic in case: {msg}"));
        }
        return rep;
    }

    let next = Arc::new(AtomicU64::new(0));
    let timed_out = Arc::new(AtomicBool::new(false));
    let merged = Arc::new(Mutex::new(Report::new()));
    let threads = cfg.threads.max(1).min(total.max(1) as usize);
    std::thread::scope(|scope| {
        for _ in 0..threads {
            let next = next.clone();
            let timed_out = timed_out.clone();
            let merged = merged.clone();
            let run = &run;
            scope.spawn(move || {
                let mut rep = Report::new();
                loop {
                    let idx = next.fetch_add(1, Ordering::Relaxed);
                    if idx >= total {
                        break;
                    }
                    if start.elapsed() > budget {
                        timed_out.store(true, Ordering::Relaxed);
                        break;
                    }
                    let case_id = (stream << 48) | idx;
                    rep.cur_case = case_id;
                    let before = rep.violation_count;
                    let mut rng = case_rng(cfg, stream, idx);
                    let r = catch_unwind(AssertUnwindSafe(|| run(idx, &mut rng, &mut rep)));
                    if r.is_err() {
                        let msg = take_last_panic().unwrap_or_default();
                        rep.violation("panic", format!("panic in case: {msg}"));
                    }
                    if rep.violation_count > before {
                        // Re-run this case with tracing on to obtain a trace for
                        // the replay file (deterministic regeneration).
                        let mut tr = Report::new();
                        tr.tracing = true;
                        tr.cur_case = case_id;
                        let mut rng = case_rng(cfg, stream, idx);
                        let _ = catch_unwind(AssertUnwindSafe(|| run(idx, &mut rng, &mut tr)));
                        let _ = take_last_panic();
                        let trace = tr.trace;
                        for v in rep.violations.iter_mut() {
                            if v.case == case_id && v.trace.is_empty() {
                                v.trace = trace.clone();
                            }
                        }
                    }
                }
                merged.lock().unwrap().merge(rep);
            });
        }
    });
    let mut rep = Arc::try_unwrap(merged)
        .ok()
        .map(|m| m.into_inner().unwrap())
        .unwrap_or_default();
    if timed_out.load(Ordering::Relaxed) {
        rep.inconclusive(format!(
            "watchdog: stream {stream} exceeded its wall-clock budget of {:?} after {} of {} cases",
            budget,
            next.load(Ordering::Relaxed).min(total),
            total
        ));
    }
    rep
}
