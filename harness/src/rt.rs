//! Per-thread tokio current-thread runtime (with the virtual clock), used to run
//! the async shell functions from synchronous monitor code.

use std::cell::RefCell;
use std::future::Future;

use tokio::runtime::{Builder, Runtime};

thread_local! {
    static RT: RefCell<Option<Runtime>> = const { RefCell::new(None) };
}

/// Run a future to completion on this thread's private current-thread runtime.
pub fn block_on<F: Future>(f: F) -> F::Output {
    // Take the runtime out of the cell for the duration of the call (never nested).
    let rt = RT.with(|cell| cell.borrow_mut().take()).unwrap_or_else(|| {
        Builder::new_current_thread()
            .enable_io()
            .enable_time()
            .build()
            .expect("tokio runtime")
    });
    let out = rt.block_on(f);
    RT.with(|cell| *cell.borrow_mut() = Some(rt));
    out
}

/// Drop this thread's runtime (closes every socket registered with it).
pub fn reset() {
    RT.with(|cell| {
        let _ = cell.borrow_mut().take();
    });
}

pub fn set_now(t: u64) {
    srtla_core::utils::verif_clock::set(t);
}

pub fn clear_now() {
    srtla_core::utils::verif_clock::clear();
}
