//! Generator of link states for the selector monitors (C03, C04, C11, C12).
//!
//! Links are built only through public constructors / methods of `srtla-core`
//! (`new_registering`, `clear_pre_registration_state`, `record_rtt_probe`,
//! `update_phase`, `register_packet`, `handle_nak`, `rtt.update_estimate`,
//! `bitrate.update_on_send` + `calculate`, `mark_for_recovery`,
//! `reset_for_reconnect`, real `select_connection_idx` calls for latch / pull
//! history) plus stamping of the fields the shell itself writes from outside
//! (`connected`, `last_received`, `last_ack_or_rtt_sample_ms`, `weak`,
//! `loss_degraded`, `cc_target_bps`, `cc_backing_off`, `reconnection.*`) and of
//! `window` (every value in [1000, 60000] is reachable by NAK / ACK steps) and, for
//! extreme counts only, `in_flight_packets` (flagged `extreme`).
//!
//! Every link kind below corresponds to a recipe of real transitions:
//!  * NeverRegistered      new_registering (optionally heard from: any non-handshake datagram)
//!  * Warming0/Warming1    REG3 (+ one keepalive RTT probe)
//!  * LiveByProbes         REG3 + two probes
//!  * LiveByTimeout        REG3 + update_phase >= 5 s later
//!  * Degraded             Live + loss_degraded + update_phase
//!  * RegErr               established, then REG_ERR (connected=false, last_received=None)
//!  * RegErrHeard          RegErr, then any non-handshake datagram (last_received=Some)
//!  * Recovering           established, then mark_for_recovery (send failure)
//!  * Reconnected          established, then reset_for_reconnect (housekeeping reconnect)

use std::net::{IpAddr, Ipv4Addr};

use srtla_core::config_snapshot::ConfigSnapshot;
use srtla_core::connection::SrtlaConnection;
use srtla_core::mode::SchedulingMode;
use srtla_core::selection::select_connection_idx;

use crate::prng::Rng;

#[derive(Clone, Copy, Debug, PartialEq, Eq)]
pub enum LinkKind {
    NeverRegistered,
    Warming0,
    Warming1,
    LiveByProbes,
    LiveByTimeout,
    Degraded,
    RegErr,
    RegErrHeard,
    Recovering,
    Reconnected,
}

#[derive(Clone, Debug)]
pub struct LinkSpec {
    pub kind: LinkKind,
    pub est_age: u64,
    pub recv_age: Option<u64>,
    pub inflight_real: u32,
    pub inflight_extreme: Option<i32>,
    pub queued: u32,
    pub window: i32,
    pub proof_age: Option<u64>,
    pub rtt: Option<(u64, u32)>,
    pub weak: bool,
    pub loss_degraded: bool,
    pub cc_target: u64,
    pub bps_bytes: u64,
    pub nak_ages: Vec<u64>,
}

#[derive(Clone, Debug)]
pub struct HistStep {
    /// how long before `now` this select is made
    pub before: u64,
    /// per link: (recv_age, proof_age) stamped before that select (None = keep)
    pub stamps: Vec<(Option<u64>, Option<u64>)>,
    pub guard_on: bool,
    /// per link: backlog change before that select through real ops: 1 = drained by a cumulative ACK,
    /// 2 = loaded with 40 more registered packets
    pub backlog: Vec<u8>,
}

pub struct Scenario {
    pub conns: Vec<SrtlaConnection>,
    pub specs: Vec<LinkSpec>,
    pub hist: Vec<HistStep>,
    pub cfg: ConfigSnapshot,
    pub now: u64,
    pub last_idx: Option<usize>,
}

#[derive(Clone, Copy, Debug, Default)]
pub struct GenOpts {
    /// force enhanced mode (C11)
    pub enhanced_only: bool,
    /// bias towards "exactly one usable link" cases
    pub one_usable_bias: bool,
    /// leave out extreme in-flight stamps
    pub no_extreme: bool,
}

pub const TIMEOUTS: [u64; 4] = [1000, 5000, 15_000, 60_000];

pub fn gen_config(rng: &mut Rng, opts: &GenOpts) -> ConfigSnapshot {
    let mode = if opts.enhanced_only || rng.chance(1, 2) { SchedulingMode::Enhanced } else { SchedulingMode::Classic };
    ConfigSnapshot {
        mode,
        quality_enabled: rng.chance(2, 3),
        stall_deselect: rng.chance(4, 5),
        stall_min_in_flight: *rng.pick(&[-1, 0, 1, 4, 32, 32, 32, i32::MAX]),
        stall_ack_stale_ms: *rng.pick(&[0, 1, 500, 1000, 3000, 3000, 10_000, 60_000]),
        conn_timeout_ms: *rng.pick(&TIMEOUTS),
    }
}

fn pick_age_vs(rng: &mut Rng, t: u64) -> u64 {
    match rng.below(8) {
        0 => 0,
        1 => t.saturating_sub(1),
        2 => t,
        3 => t + 1,
        4 => t * 3 + 7,
        5 => rng.below(t.max(1)),
        6 => rng.below(250),
        _ => rng.below(t * 2 + 1),
    }
}

pub fn gen_link_spec(rng: &mut Rng, cfg: &ConfigSnapshot, opts: &GenOpts, want_usable: Option<bool>) -> LinkSpec {
    let t = cfg.conn_timeout_ms;
    let kind = match want_usable {
        Some(true) => *rng.pick(&[LinkKind::Warming0, LinkKind::Warming1, LinkKind::LiveByProbes, LinkKind::LiveByTimeout, LinkKind::Degraded]),
        Some(false) => *rng.pick(&[
            LinkKind::NeverRegistered,
            LinkKind::RegErr,
            LinkKind::RegErrHeard,
            LinkKind::Recovering,
            LinkKind::Reconnected,
            LinkKind::LiveByProbes, // will be made timed out below
        ]),
        None => *rng.pick(&[
            LinkKind::NeverRegistered,
            LinkKind::Warming0,
            LinkKind::Warming1,
            LinkKind::LiveByProbes,
            LinkKind::LiveByProbes,
            LinkKind::LiveByTimeout,
            LinkKind::Degraded,
            LinkKind::RegErr,
            LinkKind::RegErrHeard,
            LinkKind::Recovering,
            LinkKind::Reconnected,
        ]),
    };
    let recv_age = match want_usable {
        Some(true) => Some(rng.below(t)),
        Some(false) if kind == LinkKind::LiveByProbes => Some(t + rng.below(2 * t)),
        _ => {
            if rng.chance(1, 10) { None } else { Some(pick_age_vs(rng, t)) }
        }
    };
    let m = cfg.stall_min_in_flight;
    let (inflight_real, inflight_extreme) = match rng.below(10) {
        0 => (0, None),
        1 if m > 0 && m < 400 => ((m - 1) as u32, None),
        2 if (0..400).contains(&m) => (m as u32, None),
        3 if (0..400).contains(&m) => ((m + 1) as u32, None),
        4 => (rng.below(8) as u32, None),
        5 => (40 + rng.below(200) as u32, None),
        6 if !opts.no_extreme => (3, Some(*rng.pick(&[10_000, 1_000_000, i32::MAX - 1, i32::MAX]))),
        7 => (33 + rng.below(30) as u32, None),
        _ => (rng.below(64) as u32, None),
    };
    // effective staleness window candidates for the proof age
    let w = cfg.stall_ack_stale_ms;
    let proof_age = match rng.below(9) {
        0 | 1 => None,
        2 => Some(0),
        3 => Some(w.saturating_sub(1)),
        4 => Some(w),
        5 => Some(w * 3 + 11),
        6 => Some(rng.below(1200)),
        7 => Some(1000 + rng.below(4000)),
        _ => Some(rng.below(w.max(1) * 2)),
    };
    let rtt = match rng.below(6) {
        0 | 1 => None,
        2 => Some((20, 1 + rng.below(12) as u32)),
        3 => Some((300, 1 + rng.below(12) as u32)),
        4 => Some((2000, 1 + rng.below(6) as u32)),
        _ => Some((1 + rng.below(900), 1 + rng.below(20) as u32)),
    };
    let nak_n = match rng.below(6) {
        0..=2 => 0,
        3 => 1,
        4 => 2 + rng.below(4),
        _ => 5 + rng.below(8),
    };
    let mut nak_ages: Vec<u64> = Vec::new();
    if nak_n > 0 {
        let newest = *rng.pick(&[0u64, 1, 900, 1999, 2000, 2999, 3000, 8000, 40_000]);
        let burst = rng.chance(1, 2);
        for k in 0..nak_n {
            let step = if burst { 1 + rng.below(300) } else { 1000 + rng.below(3000) };
            nak_ages.push(newest + (nak_n - 1 - k) * step);
        }
    }
    LinkSpec {
        kind,
        est_age: *rng.pick(&[0u64, 1, 4999, 5000, 5001, 29_999, 30_000, 30_001, 100_000, 6000, 12_000]),
        recv_age,
        inflight_real,
        inflight_extreme,
        queued: if rng.chance(1, 4) { 1 + rng.below(3) as u32 } else { 0 },
        window: *rng.pick(&[1000, 1000, 1500, 2000, 12_000, 20_000, 20_000, 20_000, 59_999, 60_000]),
        proof_age,
        rtt,
        weak: rng.chance(1, 4),
        loss_degraded: rng.chance(1, 5),
        cc_target: *rng.pick(&[0u64, 0, 100_000, 1_000_000, 5_000_000, 200_000_000]),
        bps_bytes: *rng.pick(&[0u64, 0, 5_000, 100_000, 600_000, 3_000_000, 60_000_000]),
        nak_ages,
    }
}

/// Build the real connection for a spec, ending at virtual time `now`.
pub fn build_link(idx: usize, spec: &LinkSpec, now: u64) -> SrtlaConnection {
    // All history happens in [t_create, now]; choose the creation time far enough back.
    let oldest_nak = spec.nak_ages.iter().copied().max().unwrap_or(0);
    let t_est = now.saturating_sub(spec.est_age.max(oldest_nak + 10));
    let t_create = t_est.saturating_sub(1500);
    let mut c = SrtlaConnection::new_registering(
        0x5000 + idx as u64,
        format!("L{idx}"),
        IpAddr::V4(Ipv4Addr::new(127, 0, 0, 10 + idx as u8)),
        t_create,
    );
    if spec.kind == LinkKind::NeverRegistered {
        // may have been heard from (e.g. stray datagram) but never got REG3
        c.last_received = spec.recv_age.map(|a| now.saturating_sub(a));
        c.weak = spec.weak;
        return c;
    }
    // REG3 at t_est (what uplink_recv does)
    c.clear_pre_registration_state(t_est);
    c.connected = true;
    c.last_received = Some(t_est);
    c.reconnection.connection_established_ms = t_est.max(1);
    c.reconnection.mark_success(&c.label.clone());

    // RTT baseline from real samples
    if let Some((ms, n)) = spec.rtt {
        for k in 0..n {
            c.rtt.update_estimate(ms, t_est + k as u64);
        }
    }
    match spec.kind {
        LinkKind::Warming0 => {}
        LinkKind::Warming1 => c.record_rtt_probe(),
        LinkKind::LiveByProbes | LinkKind::Degraded | LinkKind::RegErr | LinkKind::RegErrHeard | LinkKind::Recovering | LinkKind::Reconnected => {
            c.record_rtt_probe();
            c.record_rtt_probe();
        }
        LinkKind::LiveByTimeout => {
            // auto-promotion needs >= 5 s since REG3; if the link is younger it stays warming
            c.update_phase(now);
        }
        LinkKind::NeverRegistered => unreachable!(),
    }
    // bitrate from real accounting
    if spec.bps_bytes > 0 {
        c.bitrate.update_on_send(spec.bps_bytes);
        let t = c.bitrate.last_rate_update_ms + 2000;
        c.bitrate.calculate(t);
    }
    // in-flight from real registrations
    let base = 1_000_000 + (idx as i32) * 100_000;
    for s in 0..spec.inflight_real {
        c.register_packet(base + s as i32, now.saturating_sub(50));
    }
    // NAK history through the real handler (on held sequences)
    for (k, age) in spec.nak_ages.iter().enumerate() {
        let seq = base + 50_000 + k as i32;
        let t = now.saturating_sub(*age);
        c.register_packet(seq, t);
        c.handle_nak(seq, t);
    }
    c.window = spec.window;
    if let Some(x) = spec.inflight_extreme {
        c.in_flight_packets = x;
    }
    for q in 0..spec.queued {
        let pkt = [0u8; 64];
        let _ = c.queue_data_packet(&pkt, Some((base + 90_000 + q as i32) as u32), now);
    }
    c.weak = spec.weak;
    c.loss_degraded = spec.loss_degraded;
    c.cc_target_bps = spec.cc_target;
    if spec.kind == LinkKind::Degraded {
        c.loss_degraded = true;
        c.update_phase(now);
    }
    c.last_received = match spec.recv_age {
        Some(a) => Some(now.saturating_sub(a)),
        None => Some(t_est), // a connected link always has a receive stamp (REG3 sets it)
    };
    c.last_ack_or_rtt_sample_ms = spec.proof_age.map(|a| now.saturating_sub(a).max(1)).unwrap_or(0);
    match spec.kind {
        LinkKind::RegErr => {
            c.connected = false;
            c.last_received = None;
        }
        LinkKind::RegErrHeard => {
            c.connected = false;
            c.last_received = Some(now.saturating_sub(spec.recv_age.unwrap_or(0)));
        }
        LinkKind::Recovering => c.mark_for_recovery(),
        LinkKind::Reconnected => {
            c.reset_for_reconnect(now.saturating_sub(spec.recv_age.unwrap_or(0).min(4000)));
            c.mark_reconnect_success();
            c.reconnection.reset_startup_grace(now.saturating_sub(spec.recv_age.unwrap_or(0).min(4000)));
        }
        _ => {}
    }
    c
}

pub fn gen_scenario(rng: &mut Rng, opts: &GenOpts) -> Scenario {
    let cfg = gen_config(rng, opts);
    let n = 1 + rng.usize_below(4);
    let now = 10_000_000 + rng.below(1_000_000);
    let mut specs = Vec::with_capacity(n);
    let one_usable = opts.one_usable_bias && rng.chance(1, 2);
    let usable_idx = rng.usize_below(n);
    for i in 0..n {
        let want = if one_usable { Some(i == usable_idx) } else { None };
        specs.push(gen_link_spec(rng, &cfg, opts, want));
    }
    let mut conns: Vec<SrtlaConnection> = specs.iter().enumerate().map(|(i, s)| build_link(i, s, now)).collect();

    // Real latch / pull history: selects at earlier instants with evolving stamps.
    let mut hist = Vec::new();
    let steps = rng.usize_below(7);
    if steps > 0 {
        let final_stamps: Vec<(Option<u64>, u64)> = conns.iter().map(|c| (c.last_received, c.last_ack_or_rtt_sample_ms)).collect();
        let mut before = 200 + rng.below(12_000);
        for _ in 0..steps {
            let mut stamps = Vec::with_capacity(n);
            for _ in 0..n {
                let r = if rng.chance(1, 2) { Some(pick_age_vs(rng, 1500)) } else { None };
                let p = if rng.chance(1, 2) { Some(*rng.pick(&[0u64, 10, 900, 1000, 3000, 3001, 9000, 20_000])) } else { None };
                stamps.push((r, p));
            }
            let guard_on = rng.chance(9, 10);
            let backlog: Vec<u8> = (0..n).map(|_| match rng.below(8) { 0 | 1 => 1, 2 => 2, _ => 0 }).collect();
            hist.push(HistStep { before, stamps, guard_on, backlog });
            before = before.saturating_sub(1 + rng.below(before.max(2) / 2 + 1));
            if before == 0 {
                break;
            }
        }
        for h in &hist {
            let t = now.saturating_sub(h.before);
            for (c, (r, p)) in conns.iter_mut().zip(h.stamps.iter()) {
                if c.connected {
                    if let Some(a) = r {
                        c.last_received = Some(t.saturating_sub(*a));
                    }
                    if let Some(a) = p {
                        c.last_ack_or_rtt_sample_ms = t.saturating_sub(*a).max(1);
                    }
                }
            }
            for (li, c) in conns.iter_mut().enumerate() {
                match h.backlog.get(li).copied().unwrap_or(0) {
                    1 => c.handle_srt_ack(i32::MAX - 8, t),
                    2 => {
                        let base = 2_000_000 + (li as i32) * 100_000 + (h.before as i32 % 1000) * 50;
                        for s in 0..40 {
                            c.register_packet(base + s, t);
                        }
                    }
                    _ => {}
                }
            }
            let mut hc = cfg;
            hc.stall_deselect = h.guard_on;
            let _ = select_connection_idx(&mut conns, None, t, &hc);
        }
        // restore the stamps of the state under test
        for (c, (lr, pr)) in conns.iter_mut().zip(final_stamps.into_iter()) {
            c.last_received = lr;
            c.last_ack_or_rtt_sample_ms = pr;
        }
    }
    // A late REG_ERR (added after seeded defect C12e): the receiver rejects a link AFTER its latch / pull history
    // was made - the shell then clears `connected` and the receive stamp without any core reset, so whatever the
    // guard holds on that link (a silence pull, a latch) is still in place at the next decision.
    if steps > 0 && rng.chance(1, 5) {
        let li = rng.usize_below(n);
        let c = &mut conns[li];
        if c.connected {
            c.connected = false;
            c.last_received = None;
        }
    }
    let last_idx = match rng.below(6) {
        0 => None,
        1 => Some(n + rng.usize_below(3)),
        _ => Some(rng.usize_below(n)),
    };
    Scenario { conns, specs, hist, cfg, now, last_idx }
}

/// Property-level predicate: the link is usable (registered since its last reset,
/// connected, heard from within the configured timeout).
pub fn usable(c: &SrtlaConnection, now: u64, timeout_ms: u64) -> bool {
    c.is_schedulable() && c.connected && c.last_received.is_some_and(|lr| now.saturating_sub(lr) < timeout_ms)
}

pub fn describe(s: &Scenario) -> serde_json::Value {
    serde_json::json!({
        "now": s.now,
        "config": format!("{:?}", s.cfg),
        "last_idx": s.last_idx,
        "links": s.specs.iter().map(|x| format!("{x:?}")).collect::<Vec<_>>(),
        "history_selects": s.hist.iter().map(|h| format!("{h:?}")).collect::<Vec<_>>(),
    })
}
