//! Independent reference codec for the SRTLA / SRT wire layouts, written from the
//! layout description in property C15 (byte offsets only; shares no code with
//! `srtla-protocol`).

pub const T_KEEPALIVE: u16 = 0x9000;
pub const T_SRTLA_ACK: u16 = 0x9100;
pub const T_REG1: u16 = 0x9200;
pub const T_REG2: u16 = 0x9201;
pub const T_REG3: u16 = 0x9202;
pub const T_REG_ERR: u16 = 0x9210;
pub const T_REG_NGP: u16 = 0x9211;
pub const T_SRT_ACK: u16 = 0x8002;
pub const T_SRT_NAK: u16 = 0x8003;

fn be16(b: &[u8], o: usize) -> u16 {
    ((b[o] as u16) << 8) | b[o + 1] as u16
}
fn be32(b: &[u8], o: usize) -> u32 {
    ((b[o] as u32) << 24) | ((b[o + 1] as u32) << 16) | ((b[o + 2] as u32) << 8) | b[o + 3] as u32
}

pub fn ptype(b: &[u8]) -> Option<u16> {
    if b.len() >= 2 { Some(be16(b, 0)) } else { None }
}

/// Data packets: clear top bit of the first 32-bit word; the word is the sequence number.
pub fn srt_seq(b: &[u8]) -> Option<u32> {
    if b.len() < 4 {
        return None;
    }
    let w = be32(b, 0);
    if w >> 31 == 0 { Some(w) } else { None }
}

/// Retransmit flag: data packet (clear top bit), at least two header words, bit 2 of byte 4.
pub fn is_retransmit(b: &[u8]) -> bool {
    b.len() >= 8 && (b[0] >> 7) == 0 && ((b[4] >> 2) & 1) == 1
}

/// SRT ACK: type 0x8002, ack number at bytes 16..20.
pub fn srt_ack(b: &[u8]) -> Option<u32> {
    if b.len() < 20 || ptype(b) != Some(T_SRT_ACK) {
        return None;
    }
    Some(be32(b, 16))
}

/// SRT NAK: type 0x8003, loss list starts at byte 4; a word with the top bit set
/// opens a range [word & 0x7fffffff, next word]; range expansion stops adding
/// entries once 1000 entries have been collected; singles are always added.
pub fn srt_nak(b: &[u8]) -> Vec<u32> {
    let mut out = Vec::new();
    if b.len() < 8 || ptype(b) != Some(T_SRT_NAK) {
        return out;
    }
    let words = (b.len() - 4) / 4;
    let mut w = 0usize;
    while w < words {
        let v = be32(b, 4 + 4 * w);
        w += 1;
        if v & 0x8000_0000 != 0 {
            let start = v & 0x7fff_ffff;
            if w >= words {
                break; // truncated range tail
            }
            let end = be32(b, 4 + 4 * w);
            w += 1;
            let mut s = start as u64;
            while s <= end as u64 && out.len() < 1000 {
                out.push(s as u32);
                s += 1;
            }
        } else {
            out.push(v);
        }
    }
    out
}

/// Does the loss list contain a range whose END word has the top bit set? Sequence numbers are 31 bits and the
/// layout marks only range STARTS with the top bit; what a decoder makes of a flagged end word is outside the
/// stated layout (treated as unspecified by the C15 differential; totality and the entry bound still apply).
pub fn nak_has_flagged_range_end(b: &[u8]) -> bool {
    if b.len() < 8 || ptype(b) != Some(T_SRT_NAK) {
        return false;
    }
    let words = (b.len() - 4) / 4;
    let mut w = 0usize;
    while w < words {
        let v = be32(b, 4 + 4 * w);
        w += 1;
        if v & 0x8000_0000 != 0 {
            if w >= words {
                break;
            }
            if be32(b, 4 + 4 * w) & 0x8000_0000 != 0 {
                return true;
            }
            w += 1;
        }
    }
    false
}

/// SRTLA ACK: type 0x9100, 4-byte header, then big-endian u32 numbers.
pub fn srtla_ack(b: &[u8]) -> Vec<u32> {
    let mut out = Vec::new();
    if b.len() < 8 || ptype(b) != Some(T_SRTLA_ACK) {
        return out;
    }
    let words = (b.len() - 4) / 4;
    for w in 0..words {
        out.push(be32(b, 4 + 4 * w));
    }
    out
}

pub fn keepalive_ts(b: &[u8]) -> Option<u64> {
    if b.len() < 10 || ptype(b) != Some(T_KEEPALIVE) {
        return None;
    }
    let mut v = 0u64;
    for i in 0..8 {
        v = (v << 8) | b[2 + i] as u64;
    }
    Some(v)
}

#[derive(Clone, Copy, Debug, PartialEq, Eq)]
pub struct KaInfo {
    pub conn_id: u32,
    pub window: i32,
    pub in_flight: i32,
    pub rtt_ms: u32,
    pub nak_count: u32,
    pub bitrate_bytes_per_sec: u32,
}

pub fn keepalive_info(b: &[u8]) -> Option<KaInfo> {
    if b.len() < 38 || ptype(b) != Some(T_KEEPALIVE) {
        return None;
    }
    if be16(b, 10) != 0xC01F || be16(b, 12) != 0x0001 {
        return None;
    }
    Some(KaInfo {
        conn_id: be32(b, 14),
        window: be32(b, 18) as i32,
        in_flight: be32(b, 22) as i32,
        rtt_ms: be32(b, 26),
        nak_count: be32(b, 30),
        bitrate_bytes_per_sec: be32(b, 34),
    })
}

pub fn is_reg1(b: &[u8]) -> bool {
    b.len() == 258 && ptype(b) == Some(T_REG1)
}
pub fn is_reg2(b: &[u8]) -> bool {
    b.len() == 258 && ptype(b) == Some(T_REG2)
}
pub fn is_reg3(b: &[u8]) -> bool {
    b.len() == 2 && ptype(b) == Some(T_REG3)
}

// ---- reference builders ------------------------------------------------------

pub fn build_reg(t: u16, id: &[u8; 256]) -> Vec<u8> {
    let mut v = Vec::with_capacity(258);
    v.push((t >> 8) as u8);
    v.push(t as u8);
    v.extend_from_slice(id);
    v
}

pub fn build_keepalive10(ts: u64) -> Vec<u8> {
    let mut v = vec![0x90, 0x00];
    v.extend_from_slice(&ts.to_be_bytes());
    v
}

pub fn build_keepalive_ext(info: KaInfo, ts: u64) -> Vec<u8> {
    let mut v = build_keepalive10(ts);
    v.extend_from_slice(&[0xC0, 0x1F, 0x00, 0x01]);
    v.extend_from_slice(&info.conn_id.to_be_bytes());
    v.extend_from_slice(&info.window.to_be_bytes());
    v.extend_from_slice(&info.in_flight.to_be_bytes());
    v.extend_from_slice(&info.rtt_ms.to_be_bytes());
    v.extend_from_slice(&info.nak_count.to_be_bytes());
    v.extend_from_slice(&info.bitrate_bytes_per_sec.to_be_bytes());
    v
}

pub fn build_srtla_ack(acks: &[u32]) -> Vec<u8> {
    let mut v = vec![0x91, 0x00, 0x00, 0x00];
    for a in acks {
        v.extend_from_slice(&a.to_be_bytes());
    }
    v
}

/// SRT ACK control packet (type 0x8002) with the ack number at bytes 16..20.
pub fn build_srt_ack(ack: u32, total_len: usize, filler: u8) -> Vec<u8> {
    let mut v = vec![filler; total_len.max(20)];
    v[0] = 0x80;
    v[1] = 0x02;
    v[16..20].copy_from_slice(&ack.to_be_bytes());
    v
}

/// SRT NAK control packet from a list of (start, Some(end)) ranges / singles.
/// The 4-byte header is the type plus two filler bytes (as the production
/// parser expects the list to start at byte 4).
pub fn build_srt_nak(items: &[(u32, Option<u32>)]) -> Vec<u8> {
    let mut v = vec![0x80, 0x03, 0x00, 0x00];
    for (s, e) in items {
        match e {
            Some(e) => {
                v.extend_from_slice(&(s | 0x8000_0000).to_be_bytes());
                v.extend_from_slice(&e.to_be_bytes());
            }
            None => v.extend_from_slice(&(s & 0x7fff_ffff).to_be_bytes()),
        }
    }
    v
}

/// Is this datagram SRTLA-internal on the return path (never relayed to the SRT client)?
pub fn is_srtla_internal_return(b: &[u8]) -> bool {
    matches!(
        ptype(b),
        Some(T_REG2) | Some(T_REG3) | Some(T_REG_ERR) | Some(T_REG_NGP) | Some(T_SRTLA_ACK) | Some(T_KEEPALIVE)
    )
}
