//! Socket helpers for the live lane: non-blocking UDP with kernel receive timestamps
//! (SO_TIMESTAMPNS), so that arrival times do not depend on when the harness thread
//! gets to read the socket.

use std::net::{Ipv4Addr, SocketAddr, SocketAddrV4, UdpSocket};
use std::os::fd::{AsRawFd, RawFd};

/// CLOCK_REALTIME in microseconds (the clock SO_TIMESTAMPNS stamps with).
pub fn now_us() -> u64 {
    let mut ts = libc::timespec { tv_sec: 0, tv_nsec: 0 };
    // SAFETY: plain syscall writing into a local timespec.
    unsafe {
        libc::clock_gettime(libc::CLOCK_REALTIME, &mut ts);
    }
    ts.tv_sec as u64 * 1_000_000 + ts.tv_nsec as u64 / 1000
}

fn setopt(fd: RawFd, level: i32, name: i32, val: i32) -> bool {
    // SAFETY: setsockopt with a pointer to a local i32 of the stated size.
    unsafe { libc::setsockopt(fd, level, name, &val as *const i32 as *const libc::c_void, std::mem::size_of::<i32>() as u32) == 0 }
}

/// Non-blocking, large buffers (forced when privileged), kernel timestamps on.
pub fn setup_udp(sock: &UdpSocket) {
    let _ = sock.set_nonblocking(true);
    let fd = sock.as_raw_fd();
    let big = 32 * 1024 * 1024;
    if !setopt(fd, libc::SOL_SOCKET, libc::SO_RCVBUFFORCE, big) {
        setopt(fd, libc::SOL_SOCKET, libc::SO_RCVBUF, big);
    }
    if !setopt(fd, libc::SOL_SOCKET, libc::SO_SNDBUFFORCE, big / 4) {
        setopt(fd, libc::SOL_SOCKET, libc::SO_SNDBUF, big / 4);
    }
    setopt(fd, libc::SOL_SOCKET, libc::SO_TIMESTAMPNS, 1);
}

/// One datagram with its kernel arrival time (microseconds, CLOCK_REALTIME); falls
/// back to the read time when the kernel supplied no timestamp.
pub fn recv_ts(sock: &UdpSocket, buf: &mut [u8]) -> Option<(usize, SocketAddr, u64)> {
    let fd = sock.as_raw_fd();
    // SAFETY: recvmsg into local, correctly sized buffers; control buffer is u64-aligned.
    unsafe {
        let mut addr: libc::sockaddr_in = std::mem::zeroed();
        let mut iov = libc::iovec { iov_base: buf.as_mut_ptr() as *mut libc::c_void, iov_len: buf.len() };
        let mut cbuf = [0u64; 16];
        let mut msg: libc::msghdr = std::mem::zeroed();
        msg.msg_name = &mut addr as *mut libc::sockaddr_in as *mut libc::c_void;
        msg.msg_namelen = std::mem::size_of::<libc::sockaddr_in>() as u32;
        msg.msg_iov = &mut iov;
        msg.msg_iovlen = 1;
        msg.msg_control = cbuf.as_mut_ptr() as *mut libc::c_void;
        msg.msg_controllen = std::mem::size_of_val(&cbuf) as _;
        let n = libc::recvmsg(fd, &mut msg, libc::MSG_DONTWAIT);
        if n < 0 {
            return None;
        }
        let mut ts_us = 0u64;
        let mut c = libc::CMSG_FIRSTHDR(&msg);
        while !c.is_null() {
            if (*c).cmsg_level == libc::SOL_SOCKET && (*c).cmsg_type == libc::SCM_TIMESTAMPNS {
                let t: libc::timespec = std::ptr::read_unaligned(libc::CMSG_DATA(c) as *const libc::timespec);
                ts_us = t.tv_sec as u64 * 1_000_000 + t.tv_nsec as u64 / 1000;
            }
            c = libc::CMSG_NXTHDR(&msg, c);
        }
        if ts_us == 0 {
            ts_us = now_us();
        }
        let ip = Ipv4Addr::from(u32::from_be(addr.sin_addr.s_addr));
        let port = u16::from_be(addr.sin_port);
        Some((n as usize, SocketAddr::V4(SocketAddrV4::new(ip, port)), ts_us))
    }
}

/// poll(2) on a set of fds for readability, `timeout_ms` at most.
pub fn wait_readable(fds: &[RawFd], timeout_ms: i32) {
    let mut p: Vec<libc::pollfd> = fds.iter().map(|fd| libc::pollfd { fd: *fd, events: libc::POLLIN, revents: 0 }).collect();
    // SAFETY: poll over a local array.
    unsafe {
        libc::poll(p.as_mut_ptr(), p.len() as libc::nfds_t, timeout_ms);
    }
}

/// System-wide UDP receive-buffer overflow counters (Udp: RcvbufErrors + InErrors).
/// Any growth during a session means the kernel dropped datagrams somewhere, so
/// "never arrived" can no longer be blamed on the sender.
pub fn udp_drop_counters() -> u64 {
    let Ok(s) = std::fs::read_to_string("/proc/net/snmp") else { return 0 };
    let mut lines = s.lines().filter(|l| l.starts_with("Udp:"));
    let (Some(h), Some(v)) = (lines.next(), lines.next()) else { return 0 };
    let names: Vec<&str> = h.split_whitespace().collect();
    let vals: Vec<&str> = v.split_whitespace().collect();
    let mut total = 0u64;
    for (n, x) in names.iter().zip(vals.iter()) {
        if *n == "RcvbufErrors" || *n == "InErrors" || *n == "SndbufErrors" {
            total += x.parse::<u64>().unwrap_or(0);
        }
    }
    total
}

/// Find a UDP port that is free on the wildcard address right now (outside the
/// ephemeral range, so that uplink sockets of concurrent sessions cannot take it).
pub fn free_wildcard_port(start: u16) -> Option<u16> {
    for k in 0..400u16 {
        let p = 10_000 + ((start as u32 + k as u32 * 7) % 20_000) as u16;
        if let Ok(s) = UdpSocket::bind(("::", p)) {
            drop(s);
            return Some(p);
        }
    }
    None
}

/// Per-socket kernel drop counters (last column of /proc/net/udp and /proc/net/udp6) of the sockets that
/// belong to one live session: local IPv4 address inside the session's 127.a.b.0/24, or local port one of
/// `ports` (the sender's wildcard SRT listener, the harness's receiver and client sockets).
/// Returns (inode, drops) pairs; the caller keeps the maximum per inode, since sockets come and go.
pub fn session_socket_drops(subnet: (u8, u8), ports: &[u16]) -> Vec<(u64, u64)> {
    let mut out = Vec::new();
    for (path, v6) in [("/proc/net/udp", false), ("/proc/net/udp6", true)] {
        let Ok(text) = std::fs::read_to_string(path) else { continue };
        for line in text.lines().skip(1) {
            let f: Vec<&str> = line.split_whitespace().collect();
            if f.len() < 13 {
                continue;
            }
            let Some((addr, port)) = f[1].split_once(':') else { continue };
            let Ok(port) = u16::from_str_radix(port, 16) else { continue };
            let mut mine = ports.contains(&port);
            if !v6 && addr.len() == 8 {
                // little-endian hex: 127.a.b.c is printed as cc bb aa 7F
                if let Ok(x) = u32::from_str_radix(addr, 16) {
                    let b = x.to_le_bytes();
                    if b[0] == 127 && b[1] == subnet.0 && b[2] == subnet.1 {
                        mine = true;
                    }
                }
            }
            if !mine {
                continue;
            }
            let inode = f[9].parse::<u64>().unwrap_or(0);
            let drops = f[f.len() - 1].parse::<u64>().unwrap_or(0);
            out.push((inode, drops));
        }
    }
    out
}
