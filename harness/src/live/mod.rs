//! E6 — live-process lane.
//!
//! The production sender entry point (`run_sender_with_config`: the real
//! `tokio::select!` loop, reader tasks with recvmmsg, instant-ACK forwarder, timers,
//! SIGHUP stream, control socket) runs in a real process (`vlive`) on real loopback
//! sockets and the real clock. This module plays everything around it - the SRT client,
//! the SRTLA receiver (the same `SimReceiver` model the E1 simulator uses), path
//! faults, receiver restarts, IP-list reloads with SIGHUP, hostile return traffic -
//! and monitors what the process does from the outside:
//!
//! * every datagram that reaches the receiver side (kernel-timestamped, even on
//!   "black-holed" paths, which exist only in the receiver model) and every datagram
//!   the client gets back;
//! * the sender's own stats pushes on the control socket, one per housekeeping tick,
//!   which serve as the sender's LOGICAL clock (bounds are counted in sender ticks,
//!   never in wall-clock time) and expose per-link state.
//!
//! Verdict discipline: safety oracles (intact / once / ordered / never relayed / never
//! before the timeout ...) are decided from kernel timestamps and byte comparison.
//! Bounded-progress oracles are counted in sender ticks and only judged when neither
//! the harness loop nor the sender showed a scheduling stall; "never arrived" is only
//! judged when the kernel's UDP drop counters did not move. Everything else is
//! reported as skipped, and the caller's coverage floors turn too many skips into
//! INCONCLUSIVE.

pub mod net;

use std::collections::{BTreeMap, HashMap, HashSet, VecDeque};
use std::io::{Read, Write};
use std::net::{IpAddr, Ipv4Addr, SocketAddr, UdpSocket};
use std::os::fd::AsRawFd;
use std::os::unix::net::UnixStream;
use std::path::PathBuf;
use std::process::{Child, Command, Stdio};
use std::sync::atomic::{AtomicU64, Ordering};

use serde_json::Value;

use crate::prng::{Fnv, Rng};
use crate::refcodec as rc;
use crate::sim::receiver::{Path as RxPath, SimReceiver};
use net::{now_us, recv_ts, setup_udp};

#[derive(Clone, Copy, Debug, PartialEq, Eq)]
pub enum ReloadKind {
    Remove,
    Add,
    Replace,
    /// valid lines mixed with garbage, blank lines, duplicates, reordered
    Messy,
    RefusedEmpty,
    RefusedGarbage,
    RefusedMissing,
    /// (second reload only) the file is put back to exactly what it was at start-up
    BackToStartup,
}

#[derive(Clone, Copy, Debug, PartialEq, Eq)]
pub enum Scenario {
    Steady,
    /// one link: nothing reaches the receiver model and nothing comes back
    BlackHole,
    /// one link: the receiver gets everything but none of its replies come back
    NoReturn,
    /// the receiver forgets the group (restart of srtla_rec); unknown REG2 answered REG_NGP or REG_ERR
    Forget { err: bool },
    /// the receiver socket is closed for 1.5 s (ICMP port unreachable -> send errors), then the group is gone
    Restart,
    Reload(ReloadKind),
    /// arbitrary datagrams arrive on the uplinks while traffic flows
    HostileReturn,
    /// runtime control: set_conn_timeout (6000 -> 1500/2000 ms) and set_mode over the control socket while
    /// traffic flows, then a black-hole: the new settings must be what the event loop acts on
    Control,
    /// a control-socket client that holds 60 stats subscriptions and never reads, plus one that subscribes and
    /// disconnects abruptly, while traffic flows: the event loop must keep ticking and the hub must clean up
    StalledSubscriber,
}

#[derive(Clone, Debug)]
pub struct LiveOpts {
    pub n_links: usize,
    pub classic: bool,
    pub timeout_ms: u64,
    pub scenario: Scenario,
    pub pps: u64,
    pub no_quality: bool,
    pub no_stall: bool,
    /// client sends in bursts of 32 back-to-back datagrams (same average rate)
    pub burst: bool,
    /// data loss (per mille) applied inside the receiver model (NAK / retransmission-free gaps)
    pub loss_permille: u64,
    pub bin: PathBuf,
    /// command prefix for sanitizer lanes (e.g. valgrind ...); empty = run the binary directly
    pub wrapper: Vec<String>,
    /// tolerated sender slow-down (1 = native); lanes under tools raise it, which only widens waits
    pub slow: u64,
}

#[derive(Default, Debug)]
pub struct LiveResult {
    pub counters: BTreeMap<String, u64>,
    /// (property, signature, detail)
    pub violations: Vec<(String, String, String)>,
    pub inconclusive: Option<String>,
    pub log: Vec<String>,
    pub signature: u64,
    pub summary: Value,
}

static UNIQ: AtomicU64 = AtomicU64::new(0);

// ------------------------------------------------------------------------------------------------
// client datagrams: everything is a function of (magic, base_seq, k)
// ------------------------------------------------------------------------------------------------

fn mix(mut x: u64) -> u64 {
    x = x.wrapping_add(0x9e37_79b9_7f4a_7c15);
    x = (x ^ (x >> 30)).wrapping_mul(0xbf58_476d_1ce4_e5b9);
    x = (x ^ (x >> 27)).wrapping_mul(0x94d0_49bb_1331_11eb);
    x ^ (x >> 31)
}

pub fn client_datagram(magic: u32, base_seq: u32, k: u64) -> Vec<u8> {
    let h = mix(k ^ ((magic as u64) << 32));
    let ctl = h % 23 == 0;
    // 24 .. MTU (1500) bytes: the whole range the property quantifies over that can carry the index
    let len = match (h >> 8) % 10 {
        0 => 24 + ((h >> 16) % 40) as usize,
        1 => 24 + ((h >> 16) % 600) as usize,
        2 => 1316 + 16 + ((h >> 16) % 169) as usize, // 1332 ..= 1500
        3 => [1472usize, 1473, 1499, 1500][((h >> 16) % 4) as usize],
        _ => 1316 + 16,
    };
    let mut v = vec![0u8; len];
    if ctl {
        // SRT control packet from the client (ACKACK 0x8006 / keepalive 0x8001 / unknown 0x8044)
        let t: u16 = [0x8006, 0x8001, 0x8044][((h >> 40) % 3) as usize];
        v[0..2].copy_from_slice(&t.to_be_bytes());
        v[4..8].copy_from_slice(&(k as u32).to_be_bytes());
    } else {
        let seq = base_seq.wrapping_add(k as u32) & 0x7fff_ffff;
        v[0..4].copy_from_slice(&seq.to_be_bytes());
        // PP=11, O=1, KK=00, R = retransmit flag on one packet in 32
        v[4] = 0xE0 | if (h >> 44) % 32 == 0 { 0x04 } else { 0 };
        v[7] = 1;
    }
    v[8..12].copy_from_slice(&(k as u32).to_be_bytes());
    v[12..16].copy_from_slice(&magic.to_be_bytes());
    v[16..24].copy_from_slice(&k.to_be_bytes());
    let mut s = h | 1;
    for b in v[24..].iter_mut() {
        s ^= s << 13;
        s ^= s >> 7;
        s ^= s << 17;
        *b = s as u8;
    }
    v
}

fn decode_k(magic: u32, b: &[u8]) -> Option<u64> {
    if b.len() < 24 || b[12..16] != magic.to_be_bytes() {
        return None;
    }
    let mut k = [0u8; 8];
    k.copy_from_slice(&b[16..24]);
    Some(u64::from_be_bytes(k))
}

// ------------------------------------------------------------------------------------------------
// monitor state
// ------------------------------------------------------------------------------------------------

#[derive(Default)]
struct Link {
    ip: Option<Ipv4Addr>,
    listed: bool,
    cur_addr: Option<SocketAddr>,
    reg3_to: HashSet<SocketAddr>,
    /// receiver view: REG3 sent to `cur_addr` (and delivered: path healthy) and not re-registering since
    registered: bool,
    reg3_sent_us: u64,
    ever_registered: bool,
    fault: bool,
    /// last time (before sendto) the receiver sent a datagram to `cur_addr` that the path let through
    last_reply_us: u64,
    repaired_tick: Option<u32>,
    rereg_tick: Option<u32>,
    teardowns: u32,
    /// value of `teardowns` when the latest reload was signalled (survivors must not add to it)
    teardowns_base: u32,
    last_k: HashMap<SocketAddr, u64>,
    ka_tick: Option<u32>,
    ka_ts: Option<u64>,
    removed_after_push: Option<u32>,
    added_at_tick: Option<u32>,
    data_rx: u64,
    dups: u64,
    // from stats pushes
    st_connected: bool,
    st_gate_events: u64,
    st_pulls: u64,
    /// undisturbed since startup: no fault, no teardown, no group disturbance (for completeness of the return path)
    pristine: bool,
}

struct Sent {
    t_us: u64,
    delivered: u8,
    countable: bool,
    /// uplinks the copies arrived on (first four)
    on: [u8; 4],
}

pub struct Session {
    o: LiveOpts,
    t0_us: u64,
    dir: PathBuf,
    ips_path: PathBuf,
    ctl_path: PathBuf,
    child: Option<Child>,
    stderr_path: PathBuf,
    rx: Option<UdpSocket>,
    rport: u16,
    client: UdpSocket,
    srt_addr: SocketAddr,
    ctl: Option<UnixStream>,
    ctl_buf: Vec<u8>,
    sim: SimReceiver,
    rng: Rng,
    links: Vec<Link>,
    magic: u32,
    base_seq: u32,
    sent: Vec<Sent>,
    next_send_us: u64,
    sending: bool,
    /// datagrams may legitimately vanish (no usable uplink / send errors) while this is set
    disturbed: bool,
    group_disturbed: bool,
    ticks: u32,
    last_push_us: u64,
    sender_stalls: u32,
    harness_stalls: u32,
    last_iter_us: u64,
    stats_ips: Vec<IpAddr>,
    stats_active: usize,
    stats_total: usize,
    // C07 wire state
    issued_ids: Vec<([u8; 256], u64, bool)>, // (id, reply sent time us, reply let through)
    reg1_out: Option<(usize, u64, bool)>,    // (link, arrival us, answered)
    /// newest issued-id index seen in a REG2 from the sender, and when it was first seen
    reg2_high: Option<(usize, u64)>,
    // C09
    ret_sent: HashMap<Vec<u8>, (u64, bool)>, // bytes -> (count sent to pristine links, internal)
    ret_got: HashMap<Vec<u8>, u64>,
    client_known: bool,
    hostile_next_us: u64,
    hostile_ctr: u64,
    // scenario
    phase: u8,
    phase_tick0: u32,
    fault_link: usize,
    fault_ticks: u32,
    restart_at_us: u64,
    reload_kind: Option<ReloadKind>,
    reload_push: u32,
    reload_expect: Vec<Ipv4Addr>,
    reload_prev: Vec<Ipv4Addr>,
    reload_refused: bool,
    reload_checked: bool,
    reload_round: u32,
    startup_ips: Vec<Ipv4Addr>,
    /// per-socket kernel drop counters of this session's sockets (max seen per inode)
    sock_drops: HashMap<u64, u64>,
    my_ports: Vec<u16>,
    cur_timeout_ms: u64,
    stalled_conn: Option<UnixStream>,
    sub_count_mid: Option<u64>,
    sub_count_end: Option<u64>,
    sub_asked_end: bool,
    ctl_new_timeout: u64,
    ctl_new_mode: Option<String>,
    ctl_mode_ack_tick: Option<u32>,
    ctl_timeout_acked: bool,
    ctl_fault_tick: Option<u32>,
    ctl_guard_desc: String,
    stats_mode: String,
    err_answers_left: u32,
    /// REG3 frames the receiver side sent while the client was sending (each (re-)registers its uplink,
    /// which may strand one queued batch)
    reg3_while_sending: u32,
    res: LiveResult,
    log: VecDeque<String>,
    sig: Fnv,
    spare_ip_ctr: u8,
    subnet: (u8, u8),
}

fn ip_of(subnet: (u8, u8), i: u8) -> Ipv4Addr {
    Ipv4Addr::new(127, subnet.0, subnet.1, 10 + i)
}

impl Session {
    fn count(&mut self, k: &str) {
        *self.res.counters.entry(k.to_string()).or_insert(0) += 1;
    }
    fn add(&mut self, k: &str, n: u64) {
        *self.res.counters.entry(k.to_string()).or_insert(0) += n;
    }
    fn rel_ms(&self, us: u64) -> u64 {
        us.saturating_sub(self.t0_us) / 1000
    }
    fn ev(&mut self, s: String) {
        if self.log.len() >= 600 {
            self.log.pop_front();
        }
        let t = self.rel_ms(now_us());
        self.log.push_back(format!("[{t:>6} ms tick {:>2}] {s}", self.ticks));
    }
    fn viol(&mut self, prop: &str, sig: &str, detail: String) {
        self.ev(format!("VIOLATION {sig}: {detail}"));
        if self.res.violations.len() < 16 {
            self.res.violations.push((prop.to_string(), sig.to_string(), detail));
        }
    }
    fn timing_reliable(&self) -> bool {
        self.sender_stalls == 0 && self.harness_stalls == 0
    }
    fn link_of_ip(&self, ip: IpAddr) -> Option<usize> {
        match ip {
            IpAddr::V4(v4) => self.links.iter().position(|l| l.ip == Some(v4)),
            _ => None,
        }
    }
    fn listed_links(&self) -> Vec<usize> {
        (0..self.links.len()).filter(|i| self.links[*i].listed).collect()
    }

    // -------------------------------------------------------------------------------------------
    // set-up
    // -------------------------------------------------------------------------------------------

    pub fn start(o: LiveOpts, seed_rng: &mut Rng) -> Result<Session, String> {
        let uniq = UNIQ.fetch_add(1, Ordering::Relaxed);
        let pid = std::process::id() as u64;
        let dir = PathBuf::from(format!("/tmp/verif-live-{pid}-{uniq}"));
        let _ = std::fs::remove_dir_all(&dir);
        std::fs::create_dir_all(&dir).map_err(|e| format!("mkdir {dir:?}: {e}"))?;
        let u = pid.wrapping_mul(131).wrapping_add(uniq);
        let subnet = (1 + (u / 250 % 250) as u8, 1 + (u % 250) as u8);
        let rx = UdpSocket::bind((Ipv4Addr::LOCALHOST, 0)).map_err(|e| format!("bind receiver: {e}"))?;
        setup_udp(&rx);
        let rport = rx.local_addr().unwrap().port();
        let client = UdpSocket::bind((Ipv4Addr::LOCALHOST, 0)).map_err(|e| format!("bind client: {e}"))?;
        setup_udp(&client);
        let srt_port = net::free_wildcard_port((u * 17 % 20_000) as u16).ok_or("no free SRT port")?;
        let ips_path = dir.join("ips.txt");
        let mut links = Vec::new();
        let mut text = String::new();
        for i in 0..o.n_links {
            let ip = ip_of(subnet, i as u8);
            text.push_str(&format!("{ip}\n"));
            links.push(Link { ip: Some(ip), listed: true, pristine: true, ..Default::default() });
        }
        std::fs::write(&ips_path, text).map_err(|e| format!("write ips: {e}"))?;
        let ctl_path = dir.join("ctl.sock");
        let stderr_path = dir.join("stderr.log");
        let stderr = std::fs::File::create(&stderr_path).map_err(|e| format!("stderr file: {e}"))?;
        let mut argv: Vec<String> = o.wrapper.clone();
        argv.push(o.bin.display().to_string());
        argv.extend([
            srt_port.to_string(),
            "127.0.0.1".into(),
            rport.to_string(),
            ips_path.display().to_string(),
            ctl_path.display().to_string(),
            if o.classic { "classic".into() } else { "enhanced".into() },
            o.timeout_ms.to_string(),
        ]);
        if o.no_quality {
            argv.push("no-quality".into());
        }
        if o.no_stall {
            argv.push("no-stall".into());
        }
        let child = Command::new(&argv[0])
            .args(&argv[1..])
            .env("RUST_LOG", "off")
            .env("RUST_BACKTRACE", "1")
            .stdin(Stdio::piped())
            .stdout(Stdio::null())
            .stderr(Stdio::from(stderr))
            .spawn()
            .map_err(|e| format!("spawn {:?}: {e}", argv[0]))?;
        let mut rng = Rng::new(seed_rng.next_u64());
        let mut sim = SimReceiver::new();
        sim.max_delay = *rng.pick(&[0u64, 2, 8, 25]);
        sim.forget_group_answers_err = false;
        sim.loss_permille = o.loss_permille;
        let t0 = now_us();
        let magic = rng.next_u32() | 1;
        let base_seq = rng.next_u32() & 0x3fff_ffff;
        let mut sig = Fnv::new();
        sig.str(&format!("{:?}/{}/{}", o.scenario, o.n_links, o.classic));
        let mut s = Session {
            t0_us: t0,
            dir,
            ips_path,
            ctl_path: ctl_path.clone(),
            child: Some(child),
            stderr_path,
            rx: Some(rx),
            rport,
            client,
            srt_addr: SocketAddr::from((Ipv4Addr::LOCALHOST, srt_port)),
            ctl: None,
            ctl_buf: Vec::new(),
            sim,
            rng,
            links,
            magic,
            base_seq,
            sent: Vec::new(),
            next_send_us: 0,
            sending: false,
            disturbed: false,
            group_disturbed: false,
            ticks: 0,
            last_push_us: 0,
            sender_stalls: 0,
            harness_stalls: 0,
            last_iter_us: t0,
            stats_ips: Vec::new(),
            stats_active: 0,
            stats_total: 0,
            issued_ids: Vec::new(),
            reg1_out: None,
            reg2_high: None,
            ret_sent: HashMap::new(),
            ret_got: HashMap::new(),
            client_known: false,
            hostile_next_us: 0,
            hostile_ctr: 0,
            phase: 0,
            phase_tick0: 0,
            fault_link: 0,
            fault_ticks: 0,
            restart_at_us: 0,
            reload_kind: None,
            reload_push: 0,
            reload_expect: Vec::new(),
            reload_prev: Vec::new(),
            reload_refused: false,
            reload_checked: false,
            reload_round: 0,
            startup_ips: Vec::new(),
            sock_drops: HashMap::new(),
            my_ports: Vec::new(),
            cur_timeout_ms: 0,
            stalled_conn: None,
            sub_count_mid: None,
            sub_count_end: None,
            sub_asked_end: false,
            ctl_new_timeout: 0,
            ctl_new_mode: None,
            ctl_mode_ack_tick: None,
            ctl_timeout_acked: false,
            ctl_fault_tick: None,
            ctl_guard_desc: String::new(),
            stats_mode: String::new(),
            err_answers_left: 0,
            reg3_while_sending: 0,
            res: LiveResult::default(),
            log: VecDeque::new(),
            sig,
            spare_ip_ctr: 40,
            subnet,
            o,
        };
        s.cur_timeout_ms = s.o.timeout_ms;
        s.startup_ips = s.links.iter().filter_map(|l| l.ip).collect();
        s.my_ports = vec![srt_port, rport, s.client.local_addr().map(|a| a.port()).unwrap_or(0)];
        // wait for the control socket, subscribe to the stats topic (the sender's logical clock)
        let deadline = now_us() + 20_000_000 * s.o.slow;
        loop {
            if let Ok(c) = UnixStream::connect(&ctl_path) {
                let _ = c.set_nonblocking(true);
                s.ctl = Some(c);
                break;
            }
            if s.child_exited().is_some() || now_us() > deadline {
                let tail = s.stderr_tail();
                s.cleanup();
                return Err(format!("the sender process did not open its control socket: {tail}"));
            }
            std::thread::sleep(std::time::Duration::from_millis(5));
        }
        if let Some(c) = s.ctl.as_mut() {
            let _ = c.write_all(b"{\"jsonrpc\":\"2.0\",\"method\":\"subscribe\",\"params\":{\"topic\":\"stats\"},\"id\":1}\n");
        }
        s.ev(format!("session start: {:?} links={} classic={} timeout={} pps={} receiver reply delay <= {} ms", s.o.scenario, s.o.n_links, s.o.classic, s.o.timeout_ms, s.o.pps, s.sim.max_delay));
        Ok(s)
    }

    fn child_exited(&mut self) -> Option<String> {
        let c = self.child.as_mut()?;
        match c.try_wait() {
            Ok(Some(st)) => Some(format!("{st}")),
            _ => None,
        }
    }

    fn stderr_tail(&self) -> String {
        let s = std::fs::read_to_string(&self.stderr_path).unwrap_or_default();
        let lines: Vec<&str> = s.lines().collect();
        lines[lines.len().saturating_sub(25)..].join(" | ")
    }

    fn cleanup(&mut self) {
        if let Some(mut c) = self.child.take() {
            let _ = c.kill();
            let _ = c.wait();
        }
        let _ = std::fs::remove_dir_all(&self.dir);
    }

    // -------------------------------------------------------------------------------------------
    // receiver side
    // -------------------------------------------------------------------------------------------

    fn path_lets_replies_through(&self, ip: IpAddr, handshake: bool) -> bool {
        match self.sim.path_of(&ip) {
            RxPath::Healthy => true,
            RxPath::BlackHole | RxPath::NoReturn => false,
            RxPath::NoHandshakeReplies => !handshake,
        }
    }

    fn on_rx(&mut self, ts: u64, src: SocketAddr, b: &[u8]) {
        let Some(li) = self.link_of_ip(src.ip()) else {
            self.viol("C19", "C19.live.datagram-from-unlisted-address", format!("datagram of {} bytes from {src}, an address that was never in the IP list", b.len()));
            return;
        };
        let timeout_us = self.cur_timeout_ms * 1000;
        // removed uplink must fall silent
        if let Some(p) = self.links[li].removed_after_push
            && self.ticks >= p
            && ts > self.last_push_us
        {
            let d = format!("link {li} ({src}) was removed by the reload applied before push {p}, yet a datagram of {} bytes (type {:04x?}) arrived from it at tick {}", b.len(), rc::ptype(b), self.ticks);
            self.viol("C19", "C19.live.removed-uplink-still-sending", d);
            self.links[li].removed_after_push = None;
        }
        // socket re-open = the sender tore the link down
        if self.links[li].cur_addr != Some(src) {
            let had = self.links[li].cur_addr;
            if had.is_some() {
                self.links[li].teardowns += 1;
                self.links[li].pristine = false;
                self.count("teardowns.socket_reopened");
                let was_reg = self.links[li].registered;
                let reg3_age = ts.saturating_sub(self.links[li].reg3_sent_us);
                let last_reply = self.links[li].last_reply_us;
                let e = format!("link {li}: new source address {src} (was {had:?}); registered={was_reg}, last reply let through {} ms ago", ts.saturating_sub(last_reply) / 1000);
                self.ev(e);
                // C08: never earlier than the timeout (unless a send failed: Restart scenario)
                if was_reg && reg3_age > 1_500_000 && !matches!(self.o.scenario, Scenario::Restart) {
                    self.count("C08.teardown_vs_timeout_checked");
                    if ts + 150_000 < last_reply + timeout_us {
                        let d = format!(
                            "link {li} was connected and the receiver's last datagram to it left {} ms before the sender re-opened its socket (first frame from {src}), but the configured timeout is {} ms: torn down although it had been heard from within the timeout (no send error is possible on this path)",
                            ts.saturating_sub(last_reply) / 1000,
                            self.cur_timeout_ms
                        );
                        self.viol("C08", "C08.live.torn-down-before-timeout", d);
                    }
                    if !self.links[li].fault && !self.group_disturbed && self.timing_reliable() && self.links[li].listed {
                        // a healthy link: the receiver answers every keepalive and ACKs data, so this is also
                        // a teardown for a reason other than silence
                        self.count("C08.healthy_link_teardowns_seen");
                    }
                }
            }
            self.links[li].cur_addr = Some(src);
            self.links[li].registered = false;
            self.links[li].ka_tick = None;
        }
        let t = rc::ptype(b);
        self.sig.u64(t.unwrap_or(0) as u64 >> 4);
        match t {
            Some(rc::T_REG1) => {
                self.count("rx.reg1");
                if b.len() != 258 {
                    self.viol("C07", "C07.live.malformed-reg1", format!("REG1 of {} bytes from link {li}", b.len()));
                }
                if let Some((a, ats, answered)) = self.reg1_out
                    && a != li
                    && !answered
                    && ts.saturating_sub(ats) + 250_000 < 4_000_000
                {
                    let d = format!("REG1 arrived from link {li} only {} ms after a REG1 from link {a} that has not been answered (no REG2 / REG_ERR reply was let through) - two group-creating REG1 outstanding", ts.saturating_sub(ats) / 1000);
                    self.viol("C07", "C07.live.two-reg1-outstanding", d);
                }
                if self.issued_ids.is_empty() && b.len() == 258 {
                    let mut first = [0u8; 256];
                    first.copy_from_slice(&b[2..258]);
                    self.issued_ids.push((first, 0, true));
                }
                self.reg1_out = Some((li, ts, false));
                self.links[li].registered = false;
                for l in self.links.iter_mut() {
                    // a new group: the receiver model drops all members
                    l.registered = false;
                }
                self.ev(format!("REG1 from link {li}"));
            }
            Some(rc::T_REG2) => {
                self.count("rx.reg2");
                if b.len() != 258 {
                    self.viol("C07", "C07.live.malformed-reg2", format!("REG2 of {} bytes from link {li}", b.len()));
                } else {
                    let id = &b[2..258];
                    if self.issued_ids.is_empty() {
                        // the sender's own initial id (nothing adopted yet): entry 0, "handed over" at time 0
                        let mut first = [0u8; 256];
                        first.copy_from_slice(id);
                        self.issued_ids.push((first, 0, true));
                    }
                    let pos = self.issued_ids.iter().position(|(i, _, _)| i[..] == *id);
                    match pos {
                        None => {
                            let d = format!("REG2 from link {li} carries an id the receiver never issued (first bytes {:02x?})", &id[..8]);
                            self.viol("C07", "C07.live.reg2-with-unissued-id", d);
                        }
                        Some(p) => {
                            // the adopted id never goes back: once a REG2 carrying id #k has been seen, no REG2 sent
                            // later (kernel timestamps, 100 ms guard for frames of one broadcast round arriving on
                            // different sockets) may carry an older one. (A wall-clock "must have adopted the newest
                            // id by now" rule is unsound: a re-sent REG1 creates a second group whose REG2 reply the
                            // sender lawfully ignores because nothing is pending any more.)
                            if let Some((kmax, tmax)) = self.reg2_high
                                && p < kmax
                                && ts > tmax + 100_000
                            {
                                let d = format!("REG2 from link {li} carries group id #{p} although a REG2 carrying the newer id #{kmax} was sent {} ms earlier: the adopted id went back", (ts - tmax) / 1000);
                                self.viol("C07", "C07.live.reg2-id-went-back", d);
                            }
                            if self.reg2_high.is_none_or(|(k, _)| p > k) {
                                self.reg2_high = Some((p, ts));
                            }
                            self.count("C07.reg2_id_checked");
                        }
                    }
                }
                self.links[li].registered = false;
            }
            Some(rc::T_KEEPALIVE) => {
                self.count("rx.keepalive");
                match rc::keepalive_info(b) {
                    Some(info) if b.len() == 38 => {
                        if !(1000..=60_000).contains(&info.window) || info.in_flight < 0 {
                            self.viol("C14", "C14.live.keepalive-telemetry-out-of-range", format!("link {li}: keepalive reports window {} in-flight {}", info.window, info.in_flight));
                        }
                    }
                    _ => {
                        self.viol("C14", "C14.live.keepalive-not-extended-38-bytes", format!("link {li}: keepalive of {} bytes / no extension header: {:02x?}", b.len(), &b[..b.len().min(16)]));
                    }
                }
                if let Some(kts) = rc::keepalive_ts(b) {
                    if let Some(prev) = self.links[li].ka_ts
                        && kts < prev
                    {
                        self.viol("C14", "C14.live.keepalive-timestamp-went-back", format!("link {li}: keepalive timestamp {kts} after {prev}"));
                    }
                    self.links[li].ka_ts = Some(kts);
                }
                // cadence in sender ticks, on links the receiver keeps answering
                if let Some(p) = self.links[li].ka_tick
                    && self.links[li].registered
                    && !self.links[li].fault
                    && !self.group_disturbed
                {
                    self.count("C14.cadence_checked");
                    if self.ticks.saturating_sub(p) > 3 && self.timing_reliable() {
                        let d = format!("link {li}: {} sender ticks passed between two consecutive keepalives on a connected, answered uplink (allowed: 2 housekeeping periods)", self.ticks - p);
                        self.viol("C14", "C14.live.keepalive-gap", d);
                    }
                }
                self.links[li].ka_tick = Some(self.ticks);
            }
            Some(x) if x & 0xff00 == 0x9200 || x == rc::T_SRTLA_ACK => {
                self.count("rx.other_srtla");
            }
            _ => {
                // forwarded client datagram (data or SRT control)
                self.count("rx.forwarded");
                if !self.links[li].reg3_to.contains(&src) {
                    let d = format!("{} bytes of client traffic arrived from {src} (link {li}), an address the receiver never sent a REG3 to: the uplink carries the stream without having been connected by a REG3", b.len());
                    self.viol("C07", "C07.live.traffic-on-uplink-without-reg3", d);
                }
                match decode_k(self.magic, b) {
                    Some(k) if (k as usize) < self.sent.len() => {
                        let want = client_datagram(self.magic, self.base_seq, k);
                        if want != b {
                            let pos = want.iter().zip(b.iter()).position(|(x, y)| x != y);
                            let d = format!("client datagram #{k} ({} bytes) arrived on link {li} as {} bytes; first difference at byte {pos:?}", want.len(), b.len());
                            self.viol("C01", "C01.live.datagram-modified", d);
                        }
                        let e = &mut self.sent[k as usize];
                        if (e.delivered as usize) < 4 {
                            e.on[e.delivered as usize] = li as u8;
                        }
                        e.delivered = e.delivered.saturating_add(1);
                        let first = e.delivered == 1;
                        self.links[li].data_rx += 1;
                        if !first {
                            self.links[li].dups += 1;
                            self.count("C01.duplicates_seen");
                        }
                        if let Some(prev) = self.links[li].last_k.get(&src)
                            && *prev >= k
                            && first
                        {
                            let d = format!("link {li}: client datagram #{k} arrived after #{prev} on the same uplink socket: per-uplink arrival order broken");
                            self.viol("C01", "C01.live.per-uplink-order", d);
                        }
                        let lk = self.links[li].last_k.entry(src).or_insert(k);
                        if k > *lk {
                            *lk = k;
                        }
                    }
                    _ => {
                        let d = format!("{} bytes arrived on link {li} that are neither SRTLA-internal nor a datagram the client sent: {:02x?}", b.len(), &b[..b.len().min(24)]);
                        self.viol("C01", "C01.live.datagram-nobody-sent", d);
                    }
                }
            }
        }
        // the receiver model proper
        let now_ms = self.rel_ms(now_us());
        let before_group = self.sim.group;
        self.sim.on_frame(&mut self.rng, now_ms, src.ip(), b);
        if self.sim.group != before_group
            && let Some(g) = self.sim.group
        {
            // a REG1 created a new group id; its REG2 reply is in the pending queue
            let through = self.path_lets_replies_through(src.ip(), true);
            self.issued_ids.push((g, ts, through));
            self.count("rx.groups_created");
        }
    }

    fn deliver_due(&mut self) {
        let now_ms = self.rel_ms(now_us());
        let due = self.sim.take_due(now_ms);
        for r in due {
            let Some(li) = self.link_of_ip(r.ip) else { continue };
            let Some(addr) = self.links[li].cur_addr else { continue };
            let handshake = matches!(r.kind, "REG2" | "REG3" | "REG_ERR" | "REG_NGP");
            let mut bytes = r.bytes;
            if r.kind == "SRT_ACK" && bytes.len() >= 12 {
                // make every SRT ACK unique (the timestamp field is not read by the sender)
                self.hostile_ctr += 1;
                bytes[8..12].copy_from_slice(&(self.hostile_ctr as u32).to_be_bytes());
            }
            let t_send = now_us();
            let ok = self.rx.as_ref().is_some_and(|s| s.send_to(&bytes, addr).is_ok());
            if !ok {
                continue;
            }
            self.links[li].last_reply_us = t_send;
            match r.kind {
                "REG3" => {
                    if self.sending {
                        self.reg3_while_sending += 1;
                    }
                    self.links[li].reg3_to.insert(addr);
                    self.links[li].registered = true;
                    self.links[li].ever_registered = true;
                    self.links[li].reg3_sent_us = t_send;
                    if self.links[li].repaired_tick.is_some() && self.links[li].rereg_tick.is_none() {
                        self.links[li].rereg_tick = Some(self.ticks);
                    }
                    self.ev(format!("REG3 -> link {li} {addr}"));
                }
                "REG2" | "REG_ERR" => {
                    if let Some((a, ats, _)) = self.reg1_out
                        && a == li
                    {
                        self.reg1_out = Some((a, ats, true));
                    }
                    if r.kind == "REG2"
                        && let Some(last) = self.issued_ids.last_mut()
                    {
                        last.1 = t_send;
                    }
                    self.ev(format!("{} -> link {li}", r.kind));
                    if r.kind == "REG_ERR" && self.sim.forget_group_answers_err {
                        // REG_ERR answers are transient (as in the E1 fault schedules): after a few the
                        // restarted receiver answers REG_NGP, which is what lets a sender start over
                        self.err_answers_left = self.err_answers_left.saturating_sub(1);
                        if self.err_answers_left == 0 {
                            self.sim.forget_group_answers_err = false;
                        }
                    }
                }
                "REG_NGP" => self.ev(format!("REG_NGP -> link {li}")),
                _ => {}
            }
            let _ = handshake;
            if !rc::is_srtla_internal_return(&bytes) {
                self.note_return_sent(li, &bytes);
            }
        }
    }

    fn note_return_sent(&mut self, li: usize, bytes: &[u8]) {
        if !self.client_known {
            return;
        }
        let internal = rc::is_srtla_internal_return(bytes);
        let pristine = self.links[li].pristine && self.links[li].registered;
        let e = self.ret_sent.entry(bytes.to_vec()).or_insert((0, internal));
        if pristine && bytes.len() >= 2 {
            e.0 += 1;
        }
    }

    fn hostile_return(&mut self) {
        let now = now_us();
        if now < self.hostile_next_us || !self.client_known {
            return;
        }
        self.hostile_next_us = now + 2_000 + self.rng.below(30_000);
        let regd: Vec<usize> = (0..self.links.len()).filter(|i| self.links[*i].registered && self.links[*i].listed).collect();
        if regd.is_empty() {
            return;
        }
        let li = *self.rng.pick(&regd);
        let Some(addr) = self.links[li].cur_addr else { return };
        self.hostile_ctr += 1;
        let c = self.hostile_ctr;
        let rng = &mut self.rng;
        let tail = |v: &mut Vec<u8>| v.extend_from_slice(&c.to_be_bytes());
        let kind = match std::env::var("LIVE_HOSTILE_KIND").ok().and_then(|s| s.parse::<u64>().ok()) {
            Some(k) => k,
            None => rng.below(12),
        };
        let bytes: Vec<u8> = match kind {
            0 => {
                // unknown SRT control type
                let mut v = vec![0x80, 0x07 + rng.below(40) as u8, 0, 0];
                let n = rng.usize_below(60);
                v.extend(rng.bytes(n));
                tail(&mut v);
                v
            }
            1 => {
                // data-looking datagram towards the client
                let n = 16 + rng.usize_below(1300);
                let mut v = rng.bytes(n);
                v[0] &= 0x7f;
                tail(&mut v);
                v
            }
            2 => {
                // arbitrary bytes, first byte not an SRTLA type
                let n = 2 + rng.usize_below(200);
                let mut v = rng.bytes(n);
                if v[0] == 0x90 || v[0] == 0x91 || v[0] == 0x92 {
                    v[0] = 0x55;
                }
                tail(&mut v);
                v
            }
            3 => vec![0x80 | rng.below(16) as u8, rng.below(256) as u8], // 2 bytes, not SRTLA
            4 => {
                // SRT ACK with junk length
                let mut v = rc::build_srt_ack(rng.next_u32() & 0x7fff_ffff, 20 + rng.usize_below(30), 0);
                v[8..12].copy_from_slice(&(c as u32).to_be_bytes());
                v
            }
            5 => {
                // truncated SRT ACK / NAK
                let mut v = vec![0x80, if rng.chance(1, 2) { 0x02 } else { 0x03 }];
                let n = rng.usize_below(17);
                v.extend(rng.bytes(n));
                v
            }
            6 => {
                // NAK with an oversized range (expansion is capped) - relayed unchanged
                let mut v = vec![0x80, 0x03, 0, 0];
                v.extend_from_slice(&(0x8000_0000u32 | 5).to_be_bytes());
                v.extend_from_slice(&0x7fff_fff0u32.to_be_bytes());
                tail(&mut v);
                v
            }
            // ---- SRTLA-internal: must never reach the client -------------------------------------
            7 => {
                let mut v = vec![0x92, 0x02];
                let n = rng.usize_below(40);
                v.extend(rng.bytes(n));
                v
            }
            8 => {
                // keepalive echo nobody asked for / with junk
                let mut v = vec![0x90, 0x00];
                let n = rng.usize_below(60);
                v.extend(rng.bytes(n));
                v
            }
            9 => {
                // SRTLA ACK with a ragged tail and random numbers
                let mut v = vec![0x91, 0x00, 0, 0];
                let n = 4 + rng.usize_below(45);
                v.extend(rng.bytes(n));
                v
            }
            10 => vec![0x91, 0x00],
            _ => vec![rng.below(256) as u8], // 1 byte: outside the property, must only not crash
        };
        // one time in eight the same datagram kind arrives as a back-to-back burst (recvmmsg batches, drain budget)
        let copies = if self.rng.chance(1, 8) { 5 + self.rng.usize_below(66) } else { 1 };
        for c in 1..copies {
            let mut b = bytes.clone();
            // burst members are kept small: 70 full-size datagrams would fill the default receive buffer of the
            // sender's uplink socket on their own, and a kernel drop only voids the session's completeness verdict
            if b.len() > 200 && !rc::is_srtla_internal_return(&b) {
                b.truncate(200);
            }
            if b.len() >= 10 && !rc::is_srtla_internal_return(&b) {
                // keep burst members distinct
                let n = b.len();
                b[n - 1] ^= c as u8;
                b[n - 2] ^= 0xa5;
            }
            if self.rx.as_ref().is_some_and(|s| s.send_to(&b, addr).is_ok()) {
                self.count("C09.hostile_datagrams_sent");
                self.count("C09.hostile_burst_members");
                if rc::ptype(&b) == Some(rc::T_REG3) && self.sending {
                    self.reg3_while_sending += 1;
                }
                if b.len() >= 2 {
                    self.note_return_sent(li, &b);
                }
            }
        }
        let ok = self.rx.as_ref().is_some_and(|s| s.send_to(&bytes, addr).is_ok());
        if ok {
            if rc::ptype(&bytes) == Some(rc::T_REG3) && self.sending {
                // any REG3-typed frame (re-)registers the uplink it arrives on
                self.reg3_while_sending += 1;
            }
            self.count("C09.hostile_datagrams_sent");
            self.links[li].last_reply_us = now;
            if bytes.len() >= 2 {
                self.note_return_sent(li, &bytes);
            } else if self.client_known {
                // below the property's two bytes: whether it is relayed is unspecified, but it is not "a datagram
                // nobody sent"
                self.ret_sent.entry(bytes.clone()).or_insert((0, false));
            }
        }
    }

    fn on_client_rx(&mut self, b: &[u8]) {
        *self.ret_got.entry(b.to_vec()).or_insert(0) += 1;
        self.count("client.return_datagrams");
        if rc::is_srtla_internal_return(b) && b.len() >= 2 {
            let d = format!("the SRT client received an SRTLA-internal datagram ({} bytes, type {:04x?}): {:02x?}", b.len(), rc::ptype(b), &b[..b.len().min(16)]);
            self.viol("C09", "C09.live.srtla-internal-relayed", d);
        }
    }

    // -------------------------------------------------------------------------------------------
    // control socket: stats pushes = sender ticks
    // -------------------------------------------------------------------------------------------

    fn read_ctl(&mut self) {
        let mut tmp = [0u8; 65536];
        loop {
            let n = match self.ctl.as_mut().map(|c| c.read(&mut tmp)) {
                Some(Ok(0)) => {
                    self.ctl = None;
                    return;
                }
                Some(Ok(n)) => n,
                _ => break,
            };
            self.ctl_buf.extend_from_slice(&tmp[..n]);
        }
        while let Some(p) = self.ctl_buf.iter().position(|c| *c == b'\n') {
            let line: Vec<u8> = self.ctl_buf.drain(..=p).collect();
            if let Ok(v) = serde_json::from_slice::<Value>(&line) {
                if v["method"] == "stats.update" {
                    let data = v["params"]["data"].clone();
                    self.on_tick(&data);
                } else if let Some(id) = v["id"].as_u64() {
                    self.on_ctl_response(id, &v);
                }
            }
        }
    }

    fn on_ctl_response(&mut self, id: u64, v: &Value) {
        match id {
            101 => {
                let applied = v["result"]["ms"].as_u64();
                self.ev(format!("set_conn_timeout answered: {}", v));
                if applied != Some(self.ctl_new_timeout) {
                    let d = format!("set_conn_timeout {} answered {v}", self.ctl_new_timeout);
                    self.viol("C18", "C18.live.set-conn-timeout-response", d);
                } else {
                    self.cur_timeout_ms = self.ctl_new_timeout;
                    self.ctl_timeout_acked = true;
                }
            }
            102 => {
                self.ev(format!("set_mode answered: {}", v));
                if v["result"]["mode"].as_str().map(|s| s.to_string()) != self.ctl_new_mode {
                    let d = format!("set_mode {:?} answered {v}", self.ctl_new_mode);
                    self.viol("C18", "C18.live.set-mode-response", d);
                } else {
                    self.ctl_mode_ack_tick = Some(self.ticks);
                }
            }
            201 => {
                self.sub_count_mid = v["result"]["count"].as_u64();
                self.ev(format!("get_subscription_count (stalled client connected): {}", v));
            }
            202 => {
                self.sub_count_end = v["result"]["count"].as_u64();
                self.ev(format!("get_subscription_count (after it went away): {}", v));
            }
            _ => {}
        }
    }

    fn on_tick(&mut self, data: &Value) {
        let now = now_us();
        if self.last_push_us != 0 && now.saturating_sub(self.last_push_us) > 1_600_000 * self.o.slow {
            self.sender_stalls += 1;
            self.ev(format!("sender stall: {} ms between stats pushes", (now - self.last_push_us) / 1000));
        }
        self.last_push_us = now;
        self.ticks += 1;
        self.stats_mode = data["mode"].as_str().unwrap_or("").to_string();
        if let (Some(at), Some(m)) = (self.ctl_mode_ack_tick, self.ctl_new_mode.clone())
            && self.ticks >= at + 2
        {
            self.count("C18.control_mode_visible_checked");
            if self.stats_mode != m {
                let d = format!("set_mode {m} was acknowledged at tick {at}; the stats push at tick {} still reports mode {:?}", self.ticks, self.stats_mode);
                self.viol("C18", "C18.live.set-mode-not-visible-in-stats", d);
                self.ctl_mode_ack_tick = None;
            }
        }
        self.stats_active = data["active_links"].as_u64().unwrap_or(0) as usize;
        self.stats_total = data["total_links"].as_u64().unwrap_or(0) as usize;
        self.stats_ips.clear();
        if let Some(ls) = data["links"].as_array() {
            for l in ls {
                let Some(ip) = l["ip"].as_str().and_then(|s| s.parse::<IpAddr>().ok()) else { continue };
                self.stats_ips.push(ip);
                if let Some(li) = self.link_of_ip(ip) {
                    let k = &mut self.links[li];
                    k.st_connected = l["connected"].as_bool().unwrap_or(false) && !l["timed_out"].as_bool().unwrap_or(true);
                    k.st_gate_events = k.st_gate_events.max(l["stall_gate_events"].as_u64().unwrap_or(0));
                    k.st_pulls = k.st_pulls.max(l["silence_pulls"].as_u64().unwrap_or(0));
                    let w = l["window"].as_i64().unwrap_or(20_000);
                    if !(1000..=60_000).contains(&w) {
                        self.viol("C06", "C06.live.window-out-of-range", format!("stats push at tick {}: link {li} window {w}", self.ticks));
                    }
                }
            }
        }
        // C18 live: the black-holed link must show as timed out in the sender's own stats within
        // ceil(new timeout) + 1 ticks (it carried traffic, so it was heard right up to the fault); the built-in
        // default (5000 ms) or the start-up value (10000 ms) would need >= 5. The socket re-open comes later and is
        // additionally subject to C08's 5 s retry spacing, so it is not what is measured here.
        if self.o.scenario == Scenario::Control
            && let Some(ft) = self.ctl_fault_tick
            && !self.links[self.fault_link].st_connected
        {
            self.ctl_fault_tick = None;
            let took = self.ticks.saturating_sub(ft);
            let bound = self.ctl_new_timeout.div_ceil(1000) as u32 + 1;
            self.count("C18.control_timeout_effect_checked");
            self.add("C18.control_detection_ticks_total", took as u64);
            if took > bound && self.timing_reliable() {
                let d = format!("set_conn_timeout was answered with {} ms (stall guard {}), yet the black-holed link {} - the one carrying most of the traffic - only showed as timed out in the sender's stats {took} ticks after the fault began (bound {bound}); the start-up value was {} ms, the built-in default is 5000 ms", self.ctl_new_timeout, self.ctl_guard_desc, self.fault_link, self.o.timeout_ms);
                self.viol("C18", "C18.live.set-conn-timeout-not-effective", d);
            } else {
                self.count("C18.control_changes_effective");
            }
        }
        self.count("ticks");
        self.sample_drops();
        self.scenario_step();
    }

    // -------------------------------------------------------------------------------------------
    // scenario state machine (driven by sender ticks)
    // -------------------------------------------------------------------------------------------

    fn sample_drops(&mut self) {
        for (inode, d) in net::session_socket_drops(self.subnet, &self.my_ports) {
            let e = self.sock_drops.entry(inode).or_insert(0);
            if d > *e {
                *e = d;
            }
        }
    }

    fn all_registered(&self) -> bool {
        let l = self.listed_links();
        !l.is_empty() && l.iter().all(|i| self.links[*i].registered) && self.stats_active == l.len()
    }

    fn set_phase(&mut self, p: u8) {
        self.phase = p;
        self.phase_tick0 = self.ticks;
        self.sig.u64(0xF0 + p as u64);
        self.ev(format!("phase {p}"));
    }

    fn scenario_step(&mut self) {
        let in_phase = self.ticks - self.phase_tick0;
        match self.phase {
            0 => {
                if self.all_registered() {
                    self.count("startup.completed");
                    self.add("startup.ticks", self.ticks as u64);
                    self.sending = true;
                    self.next_send_us = now_us();
                    self.set_phase(1);
                } else if self.ticks > 12 {
                    if self.timing_reliable() {
                        let d = format!("after {} sender ticks with a cooperative receiver only {:?} of {} uplinks are registered (receiver view), stats report {} active", self.ticks, self.links.iter().map(|l| l.registered).collect::<Vec<_>>(), self.o.n_links, self.stats_active);
                        self.viol("C07", "C07.live.registration-did-not-complete", d);
                    } else {
                        self.res.inconclusive = Some("startup did not complete and the run had scheduling stalls".into());
                    }
                    self.set_phase(9);
                }
            }
            1 => {
                if in_phase >= 2 {
                    self.inject();
                    self.set_phase(2);
                }
            }
            2 => match self.o.scenario {
                Scenario::Steady | Scenario::HostileReturn => {
                    if in_phase >= 3 {
                        self.set_phase(4);
                    }
                }
                Scenario::BlackHole | Scenario::NoReturn => {
                    if in_phase >= self.fault_ticks {
                        let li = self.fault_link;
                        let ip = IpAddr::V4(self.links[li].ip.unwrap());
                        self.sim.set_path(ip, RxPath::Healthy);
                        self.links[li].fault = false;
                        self.links[li].repaired_tick = Some(self.ticks);
                        self.links[li].rereg_tick = None;
                        self.ev(format!("link {li} repaired"));
                        self.set_phase(3);
                    }
                }
                Scenario::Forget { .. } | Scenario::Restart => self.set_phase(3),
                Scenario::Reload(_) => self.set_phase(3),
                Scenario::StalledSubscriber => {
                    if in_phase == 7 {
                        if let Some(c) = self.ctl.as_mut() {
                            let _ = c.write_all(b"{\"jsonrpc\":\"2.0\",\"method\":\"get_subscription_count\",\"id\":201}\n");
                        }
                    }
                    if in_phase >= 8 {
                        self.count("C20.stalled_subscriber_phases_survived");
                        match self.sub_count_mid {
                            Some(61) => self.count("C20.count_with_stalled_client_checked"),
                            Some(n) => {
                                let d = format!("with this connection's 1 subscription and the stalled client's 60 (a third client subscribed and disconnected abruptly) the hub reports {n} subscriptions, expected 61");
                                self.viol("C20", "C20.live.subscription-count-with-stalled-client", d);
                            }
                            None => {
                                if self.timing_reliable() {
                                    self.viol("C20", "C20.live.control-request-not-answered", "get_subscription_count was not answered within a sender tick while a stalled subscriber was connected".into());
                                }
                            }
                        }
                        self.stalled_conn = None; // the stalled client goes away
                        self.set_phase(3);
                    }
                }
                Scenario::Control => {
                    if self.ctl_fault_tick.is_none() && !self.links[self.fault_link].fault {
                        // settings acknowledged two ticks ago: now the black-hole
                        if in_phase >= 2 {
                            if !self.ctl_timeout_acked || self.ctl_mode_ack_tick.is_none() {
                                if self.timing_reliable() {
                                    let d = format!("no response to set_conn_timeout / set_mode on the subscribed control connection within {in_phase} sender ticks (timeout acked {}, mode acked {:?})", self.ctl_timeout_acked, self.ctl_mode_ack_tick);
                                    self.viol("C18", "C18.live.control-request-not-answered", d);
                                }
                                self.set_phase(4);
                                return;
                            }
                            let li = self.fault_link;
                            let ip = IpAddr::V4(self.links[li].ip.unwrap());
                            self.sim.set_path(ip, RxPath::BlackHole);
                            self.links[li].fault = true;
                            self.links[li].pristine = false;
                            self.ctl_fault_tick = Some(self.ticks);
                            self.ev(format!("black-hole on link {li} under the new timeout {} ms", self.cur_timeout_ms));
                        }
                    } else if self.links[self.fault_link].fault && (self.ctl_fault_tick.is_none() || in_phase > 16) {
                        // torn down (or hopelessly late): repair and watch the recovery
                        if let Some(ft) = self.ctl_fault_tick.take()
                            && self.timing_reliable()
                        {
                            let d = format!("set_conn_timeout was answered with {} ms, yet the black-holed link {} was not torn down within {} sender ticks", self.ctl_new_timeout, self.fault_link, self.ticks - ft);
                            self.viol("C18", "C18.live.set-conn-timeout-not-effective", d);
                        }
                        let li = self.fault_link;
                        let ip = IpAddr::V4(self.links[li].ip.unwrap());
                        self.sim.set_path(ip, RxPath::Healthy);
                        self.links[li].fault = false;
                        self.links[li].repaired_tick = Some(self.ticks);
                        self.links[li].rereg_tick = None;
                        self.ev(format!("link {li} repaired"));
                        self.set_phase(3);
                    }
                }
            },
            3 => {
                let cap = 36;
                match self.o.scenario {
                    Scenario::BlackHole | Scenario::NoReturn | Scenario::Control => {
                        let li = self.fault_link;
                        let back = self.links[li].rereg_tick.is_some() || (self.links[li].teardowns == 0 && self.links[li].registered);
                        if back && self.links[li].st_connected {
                            self.count("C08.recoveries_observed");
                            self.add("C08.recovery_ticks_total", in_phase as u64);
                            self.set_phase(4);
                        } else if in_phase > cap {
                            if self.timing_reliable() {
                                let d = format!("link {li} was repaired at tick {:?} (path delivers, receiver answers) but {} sender ticks later it is not connected again (receiver sent REG3: {}, stats connected: {}, socket re-opens seen: {})", self.links[li].repaired_tick, in_phase, self.links[li].rereg_tick.is_some(), self.links[li].st_connected, self.links[li].teardowns);
                                self.viol("C08", "C08.live.not-reconnected-within-30s", d);
                            } else {
                                self.count("C08.recovery_skipped_unreliable_timing");
                            }
                            self.set_phase(4);
                        }
                    }
                    Scenario::Forget { .. } | Scenario::Restart => {
                        if matches!(self.o.scenario, Scenario::Restart) && self.rx.is_none() {
                            return;
                        }
                        if self.all_registered() {
                            self.count("C08.group_recoveries_observed");
                            self.add("C08.recovery_ticks_total", in_phase as u64);
                            self.group_disturbed = false;
                            self.disturbed = false;
                            self.set_phase(4);
                        } else if in_phase > cap + 10 {
                            if self.timing_reliable() {
                                let d = format!("the receiver lost the group at tick {} and answers again, but {} sender ticks later the bond is not re-established (registered per receiver: {:?}, stats active {})", self.phase_tick0, in_phase, self.links.iter().map(|l| l.registered).collect::<Vec<_>>(), self.stats_active);
                                self.viol("C08", "C08.live.group-not-reestablished", d);
                            } else {
                                self.count("C08.recovery_skipped_unreliable_timing");
                            }
                            self.set_phase(4);
                        }
                    }
                    Scenario::StalledSubscriber => {
                        if in_phase >= 3 && !self.sub_asked_end {
                            self.sub_asked_end = true;
                            if let Some(c) = self.ctl.as_mut() {
                                let _ = c.write_all(b"{\"jsonrpc\":\"2.0\",\"method\":\"get_subscription_count\",\"id\":202}\n");
                            }
                        }
                        if in_phase >= 4 {
                            match self.sub_count_end {
                                Some(1) => self.count("C20.cleanup_checked"),
                                Some(n) => {
                                    let d = format!("3 sender ticks (and stats publishes) after the stalled client with 60 subscriptions disconnected the hub still reports {n} subscriptions, expected 1 (this connection's)");
                                    self.viol("C20", "C20.live.subscriptions-not-cleaned-up", d);
                                }
                                None => {
                                    if self.timing_reliable() {
                                        self.viol("C20", "C20.live.control-request-not-answered", "get_subscription_count was not answered within a sender tick after the stalled subscriber left".into());
                                    }
                                }
                            }
                            self.set_phase(4);
                        }
                    }
                    Scenario::Reload(_) => {
                        if in_phase >= 4 && !self.reload_checked {
                            self.check_reload();
                        }
                        let added_ok = self.links.iter().all(|l| l.added_at_tick.is_none() || !l.listed || (l.registered && l.st_connected));
                        if self.reload_checked && (added_ok || in_phase > 14) && self.reload_round == 0 && !self.reload_refused_all() {
                            // second reload: half of the time back to exactly the start-up file, else another edit
                            self.reload_round = 1;
                            self.reload_checked = false;
                            for l in self.links.iter_mut() {
                                l.added_at_tick = None;
                            }
                            let kind = if self.rng.chance(1, 2) { ReloadKind::BackToStartup } else { *self.rng.pick(&[ReloadKind::Remove, ReloadKind::Add, ReloadKind::Replace, ReloadKind::Messy, ReloadKind::RefusedGarbage]) };
                            self.do_reload(kind);
                            self.set_phase(3);
                            return;
                        }
                        if self.reload_checked && (added_ok || in_phase > 14) {
                            if !added_ok && self.timing_reliable() {
                                let d = format!("an address added by the reload never registered within {} sender ticks: {:?}", in_phase, self.links.iter().filter(|l| l.added_at_tick.is_some()).map(|l| (l.ip, l.cur_addr, l.registered, l.st_connected)).collect::<Vec<_>>());
                                self.viol("C19", "C19.live.added-uplink-never-registered", d);
                            }
                            self.set_phase(4);
                        }
                    }
                    _ => self.set_phase(4),
                }
            }
            4 => {
                if in_phase >= 2 {
                    self.sending = false;
                    self.set_phase(5);
                }
            }
            5 => {
                if in_phase >= 2 {
                    self.set_phase(9);
                }
            }
            _ => {}
        }
    }

    fn inject(&mut self) {
        let n = self.links.len();
        match self.o.scenario {
            Scenario::Steady | Scenario::HostileReturn => {}
            Scenario::BlackHole | Scenario::NoReturn => {
                let li = self.rng.usize_below(n);
                self.fault_link = li;
                let ip = IpAddr::V4(self.links[li].ip.unwrap());
                self.sim.set_path(ip, if self.o.scenario == Scenario::BlackHole { RxPath::BlackHole } else { RxPath::NoReturn });
                self.links[li].fault = true;
                self.links[li].pristine = false;
                self.fault_ticks = (self.o.timeout_ms.div_ceil(1000)) as u32 + 2 + self.rng.below(3) as u32;
                if n == 1 {
                    self.disturbed = true;
                }
                self.ev(format!("fault on link {li} for {} ticks", self.fault_ticks));
            }
            Scenario::Forget { err } => {
                self.sim.forget_group();
                if err {
                    self.err_answers_left = 1 + self.rng.below(4) as u32;
                    self.sim.forget_group_answers_err = true;
                }
                for l in self.links.iter_mut() {
                    l.registered = false;
                    l.pristine = false;
                }
                self.group_disturbed = true;
                self.disturbed = true;
                self.ev("receiver forgot the group".into());
            }
            Scenario::Restart => {
                self.rx = None;
                self.restart_at_us = now_us() + 1_500_000;
                self.sim.forget_group();
                self.sim.pending.clear();
                for l in self.links.iter_mut() {
                    l.registered = false;
                    l.pristine = false;
                }
                self.group_disturbed = true;
                self.disturbed = true;
                self.ev("receiver socket closed".into());
            }
            Scenario::Reload(kind) => self.do_reload(kind),
            Scenario::StalledSubscriber => {
                // client A: 60 subscriptions, never reads a byte
                if let Ok(mut c) = UnixStream::connect(&self.ctl_path) {
                    let _ = c.set_nonblocking(true);
                    let mut req = String::new();
                    for i in 0..60 {
                        req.push_str(&format!("{{\"jsonrpc\":\"2.0\",\"method\":\"subscribe\",\"params\":{{\"topic\":\"stats\"}},\"id\":{}}}\n", 1000 + i));
                    }
                    let _ = c.write_all(req.as_bytes());
                    self.stalled_conn = Some(c);
                }
                // client B: subscribes and vanishes
                if let Ok(mut c) = UnixStream::connect(&self.ctl_path) {
                    let _ = c.write_all(b"{\"jsonrpc\":\"2.0\",\"method\":\"subscribe\",\"params\":{\"topic\":\"stats\"},\"id\":7}\n{\"jsonrpc\":\"2.0\",\"method\":\"subscribe\",\"params\":{\"topic\":\"priority.window\"},\"id\":8}\n");
                    drop(c);
                }
                self.ev("stalled subscriber (60 subscriptions, never reads) and an abruptly disconnecting one are connected".into());
            }
            Scenario::Control => {
                // the link that carries most of the traffic: it is heard from continuously until the fault
                self.fault_link = (0..n).max_by_key(|i| self.links[*i].data_rx).unwrap_or(0);
                self.ctl_new_timeout = *self.rng.pick(&[2500u64, 3000]);
                let m = if self.o.classic { "enhanced" } else { "classic" };
                self.ctl_new_mode = Some(m.to_string());
                let q = self.rng.chance(1, 2);
                // the stall guard is switched too, before or after the timeout, on or off: every setting must take
                // effect whatever the others are
                let g = self.rng.chance(1, 2);
                let guard_first = self.rng.chance(1, 2);
                let guard_req = format!("{{\"jsonrpc\":\"2.0\",\"method\":\"set_stall_deselect\",\"params\":{{\"enabled\":{g}}},\"id\":104}}\n");
                self.ctl_guard_desc = format!("{} (set {} the timeout; start-up: {})", if g { "on" } else { "off" }, if guard_first { "before" } else { "after" }, if self.o.no_stall { "off" } else { "on" });
                let req = format!(
                    "{}{{\"jsonrpc\":\"2.0\",\"method\":\"set_conn_timeout\",\"params\":{{\"ms\":{}}},\"id\":101}}\n{}{{\"jsonrpc\":\"2.0\",\"method\":\"set_mode\",\"params\":{{\"mode\":\"{m}\"}},\"id\":102}}\n{{\"jsonrpc\":\"2.0\",\"method\":\"set_quality\",\"params\":{{\"enabled\":{q}}},\"id\":103}}\n",
                    if guard_first { guard_req.as_str() } else { "" },
                    self.ctl_new_timeout,
                    if guard_first { "" } else { guard_req.as_str() },
                );
                if let Some(c) = self.ctl.as_mut() {
                    let _ = c.write_all(req.as_bytes());
                }
                self.ev(format!("control: set_conn_timeout {} set_mode {m} set_quality {q} stall guard {}", self.ctl_new_timeout, self.ctl_guard_desc));
            }
        }
    }

    fn do_reload(&mut self, kind: ReloadKind) {
        let cur: Vec<Ipv4Addr> = self.listed_links().iter().map(|i| self.links[*i].ip.unwrap()).collect();
        self.reload_prev = cur.clone();
        let mut new = cur.clone();
        let fresh = |s: &mut Session| {
            s.spare_ip_ctr += 1;
            ip_of(s.subnet, s.spare_ip_ctr)
        };
        let mut text = String::new();
        let mut refused = false;
        match kind {
            ReloadKind::Remove => {
                if new.len() > 1 {
                    let i = self.rng.usize_below(new.len());
                    new.remove(i);
                }
            }
            ReloadKind::Add => {
                let ip = fresh(self);
                new.push(ip);
            }
            ReloadKind::Replace => {
                if new.len() > 1 {
                    let i = self.rng.usize_below(new.len());
                    new.remove(i);
                }
                let ip = fresh(self);
                new.insert(self.rng.usize_below(new.len() + 1), ip);
            }
            ReloadKind::Messy => {
                self.rng.shuffle(&mut new);
                if new.len() > 2 && self.rng.chance(1, 2) {
                    new.pop();
                }
                if self.rng.chance(1, 2) {
                    let ip = fresh(self);
                    new.push(ip);
                }
            }
            ReloadKind::RefusedEmpty | ReloadKind::RefusedGarbage | ReloadKind::RefusedMissing => refused = true,
            ReloadKind::BackToStartup => new = self.startup_ips.clone(),
        }
        match kind {
            ReloadKind::RefusedEmpty => text = "\n   \n\t\n".into(),
            ReloadKind::RefusedGarbage => text = "not-an-ip\n999.1.1.1\n# comment\n127.0.0\n".into(),
            ReloadKind::RefusedMissing => {}
            ReloadKind::Messy => {
                text.push_str("\n  # uplinks\n");
                for (j, ip) in new.iter().enumerate() {
                    match j % 3 {
                        0 => text.push_str(&format!("  {ip}  \n")),
                        1 => text.push_str(&format!("{ip}\r\nbogus line {j}\n\n")),
                        _ => text.push_str(&format!("\t{ip}\n{ip}\n")),
                    }
                }
                text.push_str("300.300.300.300\n");
            }
            _ => {
                for ip in &new {
                    text.push_str(&format!("{ip}\n"));
                }
            }
        }
        if kind == ReloadKind::RefusedMissing {
            let _ = std::fs::remove_file(&self.ips_path);
        } else {
            let _ = std::fs::write(&self.ips_path, &text);
        }
        for l in self.links.iter_mut() {
            l.teardowns_base = l.teardowns;
        }
        self.reload_kind = Some(kind);
        self.reload_refused = refused;
        self.reload_expect = if refused { cur.clone() } else { new.clone() };
        self.reload_push = self.ticks;
        // expected effects
        if !refused {
            for ip in &new {
                if !cur.contains(ip) {
                    if let Some(li) = self.link_of_ip(IpAddr::V4(*ip)) {
                        // an address that was removed earlier comes back
                        let l = &mut self.links[li];
                        l.listed = true;
                        l.removed_after_push = None;
                        l.added_at_tick = Some(self.ticks);
                        l.registered = false;
                        l.cur_addr = None;
                        l.pristine = false;
                    } else {
                        self.links.push(Link { ip: Some(*ip), listed: true, added_at_tick: Some(self.ticks), ..Default::default() });
                    }
                }
            }
            for ip in &cur {
                if !new.contains(ip) {
                    let li = self.link_of_ip(IpAddr::V4(*ip)).unwrap();
                    self.links[li].listed = false;
                    self.links[li].pristine = false;
                    // applied at the next housekeeping tick; silent from the push after that
                    self.links[li].removed_after_push = Some(self.ticks + 3);
                }
            }
        }
        if let Some(c) = self.child.as_ref() {
            // SAFETY: signalling our own child process.
            unsafe {
                libc::kill(c.id() as i32, libc::SIGHUP);
            }
        }
        self.count("C19.reloads_signalled");
        self.ev(format!("reload {kind:?}: {cur:?} -> {:?} (refused expected: {refused})", self.reload_expect));
    }

    fn reload_refused_all(&self) -> bool {
        false
    }

    fn check_reload(&mut self) {
        self.reload_checked = true;
        self.count("C19.reloads_checked");
        if self.reload_round == 1 {
            self.count("C19.second_reloads_checked");
        }
        if self.reload_kind == Some(ReloadKind::BackToStartup) {
            self.count("C19.back_to_startup_reloads_checked");
        }
        let got: Vec<IpAddr> = self.stats_ips.clone();
        let want: Vec<IpAddr> = self.reload_expect.iter().map(|i| IpAddr::V4(*i)).collect();
        let mut g = got.clone();
        let mut w = want.clone();
        g.sort();
        w.sort();
        if g != w {
            let sig = if self.reload_refused { "C19.live.refused-reload-changed-the-uplinks" } else { "C19.live.applied-list-differs" };
            let d = format!("reload {:?}: {} sender ticks after SIGHUP the sender reports uplinks {got:?}, expected (as a set, each once) {want:?}; before the reload: {:?}", self.reload_kind, self.ticks - self.reload_push, self.reload_prev);
            self.viol("C19", sig, d);
        }
        // survivors undisturbed: same socket, no re-registration
        for li in 0..self.links.len() {
            let l = &self.links[li];
            if l.listed && l.added_at_tick.is_none() && l.teardowns > l.teardowns_base {
                let d = format!("reload {:?}: surviving uplink {li} ({:?}) re-opened its socket {} time(s) although its address stayed in the list", self.reload_kind, l.ip, l.teardowns - l.teardowns_base);
                self.viol("C19", "C19.live.survivor-disturbed", d);
            }
        }
    }

    // -------------------------------------------------------------------------------------------
    // main loop
    // -------------------------------------------------------------------------------------------

    pub fn run(mut self) -> LiveResult {
        let mut buf = vec![0u8; 2048];
        let hard_deadline = now_us() + (150_000_000 * self.o.slow).min(900_000_000);
        let mut drain_until: Option<u64> = None;
        self.last_iter_us = now_us();
        loop {
            let it = now_us();
            if it.saturating_sub(self.last_iter_us) > 250_000 {
                self.harness_stalls += 1;
                self.ev(format!("harness stall: {} ms between loop iterations", (it - self.last_iter_us) / 1000));
            }
            self.last_iter_us = it;
            let mut fds = vec![self.client.as_raw_fd()];
            if let Some(r) = self.rx.as_ref() {
                fds.push(r.as_raw_fd());
            }
            if let Some(c) = self.ctl.as_ref() {
                fds.push(c.as_raw_fd());
            }
            net::wait_readable(&fds, 1);
            // receiver socket
            for _ in 0..4096 {
                let Some((n, src, ts)) = self.rx.as_ref().and_then(|s| recv_ts(s, &mut buf)) else { break };
                let b = buf[..n].to_vec();
                self.on_rx(ts, src, &b);
            }
            // receiver restart
            if self.rx.is_none() && self.restart_at_us != 0 && now_us() >= self.restart_at_us {
                match UdpSocket::bind((Ipv4Addr::LOCALHOST, self.rport)) {
                    Ok(s) => {
                        setup_udp(&s);
                        self.rx = Some(s);
                        self.restart_at_us = 0;
                        self.ev("receiver socket back".into());
                    }
                    Err(_) => self.restart_at_us = now_us() + 100_000,
                }
            }
            self.deliver_due();
            if self.o.scenario == Scenario::HostileReturn && self.phase >= 2 && self.phase <= 4 {
                self.hostile_return();
            }
            // what comes back to the client
            for _ in 0..4096 {
                let Some((n, _src, _ts)) = recv_ts(&self.client, &mut buf) else { break };
                let b = buf[..n].to_vec();
                self.on_client_rx(&b);
            }
            // client pacing
            if self.sending {
                let now = now_us();
                let gap = 1_000_000 / self.o.pps.max(1);
                let mut burst = 0;
                if self.o.burst && self.next_send_us <= now {
                    // one burst of 32, then silence for 32 gaps
                    for _ in 0..32 {
                        let k = self.sent.len() as u64;
                        let d = client_datagram(self.magic, self.base_seq, k);
                        let ok = self.client.send_to(&d, self.srt_addr).is_ok();
                        self.sent.push(Sent { t_us: now, delivered: 0, countable: ok && !self.disturbed, on: [255; 4] });
                    }
                    self.client_known = true;
                    self.next_send_us = now + 32 * gap;
                }
                while !self.o.burst && self.next_send_us <= now && burst < 64 {
                    let k = self.sent.len() as u64;
                    let d = client_datagram(self.magic, self.base_seq, k);
                    let ok = self.client.send_to(&d, self.srt_addr).is_ok();
                    self.sent.push(Sent { t_us: now, delivered: 0, countable: ok && !self.disturbed, on: [255; 4] });
                    self.client_known = true;
                    self.next_send_us += gap;
                    burst += 1;
                }
                if self.next_send_us + 200_000 < now {
                    // fell behind (stall): do not burst to catch up
                    self.next_send_us = now;
                }
            }
            self.read_ctl();
            if self.o.scenario == Scenario::StalledSubscriber
                && (self.phase == 2 || self.phase == 3)
                && self.last_push_us != 0
                && now_us().saturating_sub(self.last_push_us) > 15_000_000 * self.o.slow
                && self.harness_stalls == 0
            {
                let d = format!("no stats push reached this (reading) subscriber for 15 s while a stalled subscriber with 60 subscriptions was connected, although the harness loop never stalled: the sender's event loop is blocked (last tick {}, {} client datagrams delivered so far)", self.ticks, self.sent.iter().filter(|s| s.delivered > 0).count());
                self.viol("C20", "C20.live.event-loop-blocked-by-stalled-subscriber", d);
                self.set_phase(9);
            }
            if let Some(st) = self.child_exited() {
                let tail = self.stderr_tail();
                if tail.contains("Address already in use") || tail.contains("bind local SRT UDP listener") {
                    // the environment, not the sender: the SRT port picked for this session was taken between the
                    // harness's probe and the sender's bind. No verdict; the batch driver retries the session.
                    self.res.inconclusive = Some(format!("port clash: {tail}"));
                    break;
                }
                let d = format!("the sender process exited ({st}) in phase {} at tick {}; stderr tail: {tail}", self.phase, self.ticks);
                self.viol("*", "live.sender-process-died", d);
                break;
            }
            if self.phase == 9 {
                let du = *drain_until.get_or_insert(now_us() + 150_000);
                if now_us() > du {
                    break;
                }
            }
            if now_us() > hard_deadline {
                self.res.inconclusive = Some(format!("live session watchdog expired in phase {} at tick {} (no verdict from this session)", self.phase, self.ticks));
                break;
            }
            if self.ctl.is_none() && self.phase != 9 {
                self.res.inconclusive = Some("control socket closed".into());
                break;
            }
        }
        self.finish()
    }

    fn finish(mut self) -> LiveResult {
        self.sample_drops();
        let drops: u64 = self.sock_drops.values().sum();
        let reliable = self.timing_reliable();
        self.add("sessions", 1);
        if reliable {
            self.count("sessions.timing_reliable");
        } else {
            self.count("sessions.with_scheduling_stalls");
        }
        if drops > 0 {
            self.count("sessions.kernel_udp_drops_seen");
        }
        let died = self.res.violations.iter().any(|v| v.1 == "live.sender-process-died");
        // ---- C01: completeness, duplicates ------------------------------------------------------------
        let total_sent = self.sent.len() as u64;
        self.add("client.datagrams_sent", total_sent);
        let delivered = self.sent.iter().filter(|s| s.delivered > 0).count() as u64;
        self.add("client.datagrams_delivered", delivered);
        let teardowns: u32 = self.links.iter().map(|l| l.teardowns).sum::<u32>() + self.links.iter().filter(|l| !l.listed).count() as u32;
        let restart = matches!(self.o.scenario, Scenario::Restart);
        if self.phase == 9 && !died && self.res.inconclusive.is_none() {
            let missing: Vec<u64> = self.sent.iter().enumerate().filter(|(_, s)| s.countable && s.delivered == 0).map(|(k, _)| k as u64).collect();
            let allowed = 32 * (teardowns as u64 + self.reg3_while_sending as u64);
            if drops > 0 || restart {
                self.count("C01.completeness_skipped");
            } else {
                self.count("C01.completeness_checked");
                self.add("C01.completeness_datagrams", self.sent.iter().filter(|s| s.countable).count() as u64);
                if missing.len() as u64 > allowed {
                    let d = format!(
                        "{} of {} datagrams the client sent while at least one uplink was connected never left on any uplink (first missing #{:?}, sent {} ms into the session); uplink teardowns / removals / REG3 (re-)registrations that may each strand one queued batch: {} (allowance {}); the kernel drop counters of this session's sockets stayed at 0",
                        missing.len(),
                        self.sent.iter().filter(|s| s.countable).count(),
                        missing.iter().take(8).collect::<Vec<_>>(),
                        missing.first().map(|k| self.rel_ms(self.sent[*k as usize].t_us)).unwrap_or(0),
                        teardowns + self.reg3_while_sending,
                        allowed
                    );
                    self.viol("C01", "C01.live.datagram-never-transmitted", d);
                }
            }
            // extra copies only on uplinks the stall guard gated / pulled at some point: of the uplinks the
            // copies of one datagram arrived on, all but one must show a gate engagement or silence pull
            // in the sender's own stats, and no uplink gets two copies
            let gated_ever: Vec<bool> = self.links.iter().map(|l| l.st_gate_events + l.st_pulls > 0).collect();
            let mut dup_per_link = vec![0u64; self.links.len()];
            let mut bad_same: Option<(usize, usize)> = None;
            let mut bad_ungated: Option<(usize, Vec<u8>)> = None;
            let mut n_dup = 0u64;
            for (k, e) in self.sent.iter().enumerate() {
                if e.delivered < 2 {
                    continue;
                }
                n_dup += 1;
                let on: Vec<u8> = e.on.iter().copied().filter(|x| *x != 255).collect();
                let mut uniq = on.clone();
                uniq.sort();
                uniq.dedup();
                if uniq.len() < on.len() || e.delivered > 4 {
                    bad_same.get_or_insert((k, on[0] as usize));
                }
                let ungated = uniq.iter().filter(|l| !gated_ever[**l as usize]).count();
                if ungated > 1 {
                    bad_ungated.get_or_insert((k, on.clone()));
                }
                // charge the copy to a gated uplink
                if let Some(g) = uniq.iter().find(|l| gated_ever[**l as usize]) {
                    dup_per_link[*g as usize] += (on.len() - 1) as u64;
                }
            }
            self.add("C01.duplicated_datagrams", n_dup);
            if let Some((k, l)) = bad_same {
                let d = format!("client datagram #{k} arrived more than once on the same uplink (link {l}); copies arrived on links {:?}", self.sent[k].on);
                self.viol("C01", "C01.live.duplicate-on-same-uplink", d);
            }
            if let Some((k, on)) = bad_ungated
                && reliable
            {
                let d = format!("client datagram #{k} arrived on uplinks {on:?}, of which more than one never showed a stall-gate engagement or silence pull in the sender's stats (gate evidence per link: {gated_ever:?}); {n_dup} datagrams were duplicated in this session");
                self.viol("C01", "C01.live.duplicate-on-ungated-uplink", d);
            }
            let budget = total_sent / 100 + 2;
            for (li, n) in dup_per_link.iter().enumerate() {
                if *n > budget {
                    let d = format!("{n} extra copies charged to gated link {li} for {total_sent} client datagrams (at most one per 100 routed)");
                    self.viol("C01", "C01.live.duplicate-rate", d);
                }
            }
            // ---- C09: return path -------------------------------------------------------------------------
            let mut want_total = 0u64;
            let mut lost: Vec<(usize, u64, u64)> = Vec::new();
            for (b, (n, internal)) in self.ret_sent.iter() {
                if *internal || *n == 0 {
                    continue;
                }
                want_total += *n;
                let got = self.ret_got.get(b).copied().unwrap_or(0);
                if got < *n {
                    lost.push((b.len(), *n, got));
                }
            }
            self.add("C09.return_datagrams_expected", want_total);
            if drops == 0 && !restart {
                self.count("C09.completeness_checked");
                if !lost.is_empty() {
                    let d = format!("{} distinct non-internal datagrams that arrived on undisturbed, connected uplinks were relayed to the SRT client fewer times than they arrived (len, arrived, relayed): {:?}", lost.len(), lost.iter().take(6).collect::<Vec<_>>());
                    self.viol("C09", "C09.live.return-datagram-not-relayed", d);
                }
            } else {
                self.count("C09.completeness_skipped");
            }
            let foreign: Vec<(Vec<u8>, u64)> = self.ret_got.iter().filter(|(b, _)| !self.ret_sent.contains_key(*b)).take(2).map(|(b, n)| (b.clone(), *n)).collect();
            for (b, n) in foreign {
                let d = format!("the SRT client received {n}x a datagram of {} bytes that the receiver side never sent: {:02x?}", b.len(), &b[..b.len().min(20)]);
                self.viol("C09", "C09.live.client-got-datagram-nobody-sent", d);
            }
        }
        // sanitizer lanes: anything the tool printed about the sender process
        if !self.o.wrapper.is_empty() || self.o.slow > 1 {
            let text = std::fs::read_to_string(&self.stderr_path).unwrap_or_default();
            let marks = ["== Invalid ", "== Conditional jump", "== Use of uninit", "== Syscall param", "ERROR: AddressSanitizer", "WARNING: ThreadSanitizer", "ERROR: ThreadSanitizer", "== Mismatched free", "== Source and destination overlap"];
            let n = text.lines().filter(|l| marks.iter().any(|m| l.contains(m))).count();
            self.add("tool.sessions_under_tool", 1);
            if n > 0 {
                let first = text.lines().position(|l| marks.iter().any(|m| l.contains(m))).unwrap_or(0);
                let excerpt: Vec<&str> = text.lines().skip(first).take(18).collect();
                let d = format!("the sanitizer / memcheck run of the sender process printed {n} report(s); first: {}", excerpt.join(" | "));
                self.viol("*", "live.sanitizer-report", d);
            }
        }
        let ev = self.rx_summary();
        self.res.summary = ev;
        self.res.signature = self.sig.finish();
        self.res.log = self.log.iter().cloned().collect();
        // distribute "*" violations
        self.cleanup();
        self.res
    }

    fn rx_summary(&self) -> Value {
        serde_json::json!({
            "scenario": format!("{:?}", self.o.scenario),
            "links": self.o.n_links,
            "mode": if self.o.classic { "classic" } else { "enhanced" },
            "timeout_ms": self.o.timeout_ms,
            "pps": self.o.pps,
            "burst": self.o.burst,
            "receiver_model_loss_permille": self.o.loss_permille,
            "sender_ticks": self.ticks,
            "client_datagrams": self.sent.len(),
            "delivered": self.sent.iter().filter(|s| s.delivered > 0).count(),
            "per_link (data, dups, socket re-opens, registered at end)": self.links.iter().map(|l| (l.data_rx, l.dups, l.teardowns, l.registered)).collect::<Vec<_>>(),
            "groups_created": self.issued_ids.len().saturating_sub(1),
            "timing_reliable": self.timing_reliable(),
        })
    }
}

// ------------------------------------------------------------------------------------------------
// batch driver
// ------------------------------------------------------------------------------------------------

pub fn vlive_path() -> PathBuf {
    let exe = std::env::current_exe().unwrap_or_default();
    exe.parent().map(|p| p.join("vlive")).unwrap_or_else(|| PathBuf::from("vlive"))
}

pub fn gen_opts(rng: &mut Rng, scenario: Scenario, bin: &std::path::Path) -> LiveOpts {
    let n_links = match scenario {
        Scenario::BlackHole | Scenario::NoReturn | Scenario::Control => 2 + rng.usize_below(3),
        Scenario::Reload(_) => 2 + rng.usize_below(2),
        _ => 1 + rng.usize_below(4),
    };
    LiveOpts {
        n_links,
        classic: rng.chance(1, 2),
        timeout_ms: if scenario == Scenario::Control { 10_000 } else { *rng.pick(&[3000u64, 3000, 4000]) },
        scenario,
        pps: *rng.pick(&[200u64, 800, 2000]),
        no_quality: rng.chance(1, 4),
        no_stall: rng.chance(1, 4),
        burst: false,
        loss_permille: *rng.pick(&[0u64, 0, 10, 40]),
        bin: bin.to_path_buf(),
        wrapper: Vec::new(),
        slow: 1,
    }
    .with_burst(rng)
}

impl LiveOpts {
    fn with_burst(mut self, rng: &mut Rng) -> Self {
        // bursts only at moderate rates: at 2000 datagrams/s two bursts inside one scheduling hiccup of the
        // sender would overflow its SRT listener's default receive buffer
        self.burst = self.pps <= 800 && rng.chance(1, 2);
        self
    }
}

pub struct BatchSpec<'a> {
    pub prop: &'a str,
    pub scenarios: &'a [(Scenario, u32)],
    pub sessions: u64,
    pub parallel: usize,
    pub stream: u64,
    pub bin: PathBuf,
    pub wrapper: Vec<String>,
    pub slow: u64,
    pub pps_cap: u64,
}

fn merge_result(rep: &mut crate::report::Report, prop: &str, case: u64, res: LiveResult) {
    for (k, v) in res.counters.iter() {
        rep.add(&format!("live.{k}"), *v);
    }
    rep.evaluations += res.counters.get("rx.forwarded").copied().unwrap_or(0) + res.counters.get("client.return_datagrams").copied().unwrap_or(0) + res.counters.get("rx.keepalive").copied().unwrap_or(0) + res.counters.get("rx.reg2").copied().unwrap_or(0);
    rep.distinct(res.signature);
    if let Some(why) = res.inconclusive.as_ref() {
        rep.count("live.sessions.inconclusive");
        rep.notes.entry("live.last_inconclusive_session".into()).or_insert_with(|| serde_json::json!(why));
    }
    for (p, sig, detail) in res.violations {
        if p == prop || p == "*" {
            let sig2 = if p == "*" { format!("{prop}.{sig}") } else { sig };
            rep.cur_case = case;
            let before = rep.violations.len();
            rep.violation(&sig2, detail);
            if rep.violations.len() > before
                && let Some(v) = rep.violations.last_mut()
            {
                v.trace = res.log.clone();
            }
        } else {
            rep.count("live.violations_of_other_properties_seen");
            rep.notes.entry(format!("live.other.{sig}")).or_insert_with(|| serde_json::json!(detail));
        }
    }
    if rep.wants_sample() {
        rep.sample(res.summary);
    }
}

/// Run `spec.sessions` live sessions, `spec.parallel` at a time, and fold what they observed into `rep`
/// (violations of `spec.prop` only; other properties' oracles run too but are judged by their own check).
pub fn run_batch(cfg: &crate::report::RunCfg, rep: &mut crate::report::Report, spec: &BatchSpec) {
    let bin = spec.bin.clone();
    if !bin.exists() {
        rep.inconclusive(format!("live lane: {} not built", bin.display()));
        return;
    }
    let mut h = Fnv::new();
    h.str(spec.prop);
    let ph = h.finish();
    let one = |idx: u64| -> Result<LiveResult, String> {
        let mut rng = Rng::derive(cfg.seed, &[ph, spec.stream, idx]);
        let weights: Vec<u32> = spec.scenarios.iter().map(|s| s.1).collect();
        let sc = spec.scenarios[rng.weighted(&weights)].0;
        let mut o = gen_opts(&mut rng, sc, &bin);
        o.wrapper = spec.wrapper.clone();
        o.slow = spec.slow;
        o.pps = o.pps.min(spec.pps_cap);
        // a session that lost its SRT port to somebody else between probe and bind is simply run again
        for _attempt in 0..4 {
            let s = Session::start(o.clone(), &mut rng)?;
            let r = s.run();
            if r.inconclusive.as_deref().is_some_and(|w| w.starts_with("port clash")) {
                continue;
            }
            return Ok(r);
        }
        Err("the SRT port of the session was taken four times in a row".into())
    };
    if let Some(c) = cfg.replay_case {
        if c >> 48 != spec.stream {
            return;
        }
        let idx = c & ((1 << 48) - 1);
        match one(idx) {
            Ok(res) => {
                rep.trace = res.log.clone();
                merge_result(rep, spec.prop, c, res);
            }
            Err(e) => rep.inconclusive(format!("live session could not start: {e}")),
        }
        return;
    }
    let next = AtomicU64::new(0);
    let merged = std::sync::Mutex::new(crate::report::Report::new());
    std::thread::scope(|sc| {
        for _ in 0..spec.parallel.max(1).min(spec.sessions.max(1) as usize) {
            sc.spawn(|| {
                loop {
                    let idx = next.fetch_add(1, Ordering::Relaxed);
                    if idx >= spec.sessions {
                        break;
                    }
                    let r = one(idx);
                    let mut m = merged.lock().unwrap();
                    match r {
                        Ok(res) => merge_result(&mut m, spec.prop, (spec.stream << 48) | idx, res),
                        Err(e) => {
                            m.count("live.sessions.not_started");
                            m.notes.entry("live.last_start_failure".into()).or_insert_with(|| serde_json::json!(e));
                        }
                    }
                }
            });
        }
    });
    rep.merge(merged.into_inner().unwrap());
}

pub fn is_live_lane(cfg: &crate::report::RunCfg) -> bool {
    cfg.lane.as_deref().is_some_and(|l| l.starts_with("live-"))
}

/// The live lane of one property's check: 12 sessions (quick) / 96 sessions (thorough), up to 16 at a time,
/// stream 60 of the case-id space. Inside the sanitizer lanes of `vcheck` itself (harness under a tool) it is
/// skipped; the live process has lanes of its own: `--lane live-memcheck` (the sender process under valgrind),
/// `--lane live-asan` / `--lane live-tsan` (a sanitizer build of `vlive` named by VERIF_LIVE_BIN).
pub fn prop_lane(cfg: &crate::report::RunCfg, rep: &mut crate::report::Report, prop: &str, scenarios: &[(Scenario, u32)]) {
    let native = match cfg.tier {
        crate::report::Tier::Quick => 12,
        crate::report::Tier::Thorough => 96,
    };
    let env_bin = std::env::var("VERIF_LIVE_BIN").ok().map(PathBuf::from);
    let (wrapper, bin, slow, sessions, pps_cap): (Vec<String>, PathBuf, u64, u64, u64) = match cfg.lane.as_deref() {
        None => (Vec::new(), vlive_path(), 1, native, u64::MAX),
        Some("live-memcheck") => (
            ["valgrind", "-q", "--error-exitcode=97", "--leak-check=no", "--errors-for-leak-kinds=none"].iter().map(|s| s.to_string()).collect(),
            vlive_path(),
            25,
            6,
            100,
        ),
        Some("live-asan") => match env_bin {
            Some(b) => (Vec::new(), b, 4, 8, 800),
            None => {
                rep.inconclusive("live-asan lane: VERIF_LIVE_BIN not set".into());
                return;
            }
        },
        Some("live-tsan") => match env_bin {
            Some(b) => (Vec::new(), b, 8, 8, 400),
            None => {
                rep.inconclusive("live-tsan lane: VERIF_LIVE_BIN not set".into());
                return;
            }
        },
        Some(_) => return,
    };
    let mut spec = BatchSpec { prop, scenarios, sessions, parallel: 16.min(sessions as usize), stream: 60, bin, wrapper, slow, pps_cap };
    run_batch(cfg, rep, &spec);
    // On a loaded machine sessions lose their progress verdicts to scheduling stalls and their completeness
    // verdicts to kernel drops. Rather than ending short of the coverage floors, run up to two more half batches
    // (streams 61, 62 of the case-id space) while fewer than two thirds of the planned sessions were fully judged.
    if cfg.lane.is_none() {
        for extra in 1..=2u64 {
            spec.stream = 60 + extra;
            spec.sessions = sessions / 2;
            if cfg.replay_case.is_some() {
                run_batch(cfg, rep, &spec); // a replayed case id names its stream; the others return at once
                continue;
            }
            let judged = rep.get("live.sessions.timing_reliable").min(sessions - rep.get("live.sessions.kernel_udp_drops_seen").min(sessions));
            if judged * 3 >= sessions * 2 && rep.get("live.sessions.inconclusive") + rep.get("live.sessions.not_started") == 0 {
                break;
            }
            rep.count("live.extra_batches_for_coverage");
            run_batch(cfg, rep, &spec);
        }
    }
}
