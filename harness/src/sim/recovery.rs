//! C08 — failed uplinks are detected, retried forever, and rejoin cleanly.
//! Fault-schedule driver over the real arms + the D1..D6 monitor. Liveness is decided
//! as bounded progress in virtual time.

use std::collections::HashMap;
use std::net::IpAddr;
use std::sync::atomic::Ordering;

use super::monitors::DeliveryMon;
use super::receiver::Path;
use super::stream::{ArmKind, ArmRecord, Driver, Injected, LinkSnap, Monitor, StreamOpts};
use super::{Sim, link_ip};
use crate::prng::Rng;
use crate::refcodec as rc;
use crate::report::Report;

#[derive(Default, Clone)]
struct LinkRec {
    /// monitor's own record: last time a datagram was delivered to this link's receive path
    heard: Option<u64>,
    /// time of the previous reconnect attempt (observed edge) and whether the link had ever been established then
    last_attempt: Option<u64>,
    /// start of the current interval in which this link has no fault of its own (None while faulty)
    clean_since: Option<u64>,
    /// observed teardown since the link was last connected
    torn_down_at: Option<u64>,
    was_reset_since_connected: bool,
    ever_connected: bool,
    created_at: u64,
    reg_err_at: Option<u64>,
    d5_reported: bool,
    backoff_at_repair: u64,
}

pub struct RecoveryMon {
    pub timeout: u64,
    links: HashMap<u64, LinkRec>,
    /// set by the driver: links (by conn_id) that currently have a fault of their own
    pub faulty: HashMap<u64, &'static str>,
    /// set by the driver: a group-wide disturbance (receiver restart, all links down) until this time
    pub group_disturbed_until: u64,
    max_hk_gap: u64,
    last_hk: Option<u64>,
}

fn find<'a>(v: &'a [LinkSnap], id: u64) -> Option<&'a LinkSnap> {
    v.iter().find(|l| l.conn_id == id)
}

fn backoff_ms(failures: u32) -> u64 {
    (5000u64.saturating_mul(1u64 << failures.min(5))).min(120_000)
}

impl RecoveryMon {
    pub fn new(timeout: u64) -> Self {
        RecoveryMon { timeout, links: HashMap::new(), faulty: HashMap::new(), group_disturbed_until: 0, max_hk_gap: 0, last_hk: None }
    }

    /// driver hook: a fault on this link was repaired at `t`
    /// `binder_was_failing`: the outage included failing socket re-opens (the only lawful reason for a
    /// back-off beyond the 5 s base: the property's case split). Only then is the rejoin bound extended by
    /// the back-off in force; a path fault alone must rejoin within 30 s whatever the implementation's
    /// failure counter says.
    pub fn repaired(&mut self, id: u64, t: u64, failures_now: u32, binder_was_failing: bool) {
        self.faulty.remove(&id);
        let l = self.links.entry(id).or_default();
        l.clean_since = Some(t);
        l.d5_reported = false;
        l.backoff_at_repair = if binder_was_failing { backoff_ms(failures_now) } else { 0 };
    }

    pub fn fault(&mut self, id: u64, what: &'static str) {
        self.faulty.insert(id, what);
        let l = self.links.entry(id).or_default();
        l.clean_since = None;
    }
}

impl Monitor for RecoveryMon {
    fn on_stream_start(&mut self, sim: &Sim) {
        for c in sim.conns.iter() {
            let l = self.links.entry(c.conn_id).or_default();
            l.ever_connected = c.connected;
            l.heard = c.last_received;
            l.clean_since = Some(sim.now);
            l.created_at = sim.now;
        }
    }

    fn on_arm(&mut self, rec: &ArmRecord, _inj: &[Injected], _sim: &Sim, rep: &mut Report) {
        let t = rec.t;
        // ---- monitor's own "heard" log -------------------------------------------------------------------------------
        if let ArmKind::Uplink { conn_id, bytes, .. } = &rec.kind
            && bytes.len() >= 2
        {
            let ty = rc::ptype(bytes);
            let l = self.links.entry(*conn_id).or_default();
            match ty {
                Some(0x9201) | Some(0x9211) => {}
                Some(0x9210) => l.reg_err_at = Some(t),
                _ => l.heard = Some(t),
            }
        }
        let is_hk = matches!(rec.kind, ArmKind::Housekeeping { .. });
        if is_hk {
            if let Some(p) = self.last_hk {
                self.max_hk_gap = self.max_hk_gap.max(t - p);
            }
            self.last_hk = Some(t);
        }
        for post in rec.post.iter() {
            let id = post.conn_id;
            let Some(pre) = find(&rec.pre, id) else { continue };
            rep.eval();
            let lrec = self.links.entry(id).or_default().clone();
            let broken = rec.broken.contains(&id);
            let attempt_edge = pre.reconnect_attempt_ms != post.reconnect_attempt_ms;
            let sock_replaced = pre.sock != post.sock;
            let went_down = pre.connected && !post.connected;
            let teardown = attempt_edge || sock_replaced || went_down;
            let silent_for = lrec.heard.map(|h| t.saturating_sub(h));
            let fault = self.faulty.get(&id).copied();
            // ---- D1 / D2: not early, not for a routing penalty ------------------------------------------------------
            if teardown && pre.connected {
                let by_silence = silent_for.is_none_or(|s| s >= self.timeout);
                let by_reg_err = matches!(&rec.kind, ArmKind::Uplink { conn_id, bytes, .. } if *conn_id == id && rc::ptype(bytes) == Some(0x9210));
                let by_send_error = broken;
                rep.count(if by_send_error {
                    "D1.teardown.send_error"
                } else if by_reg_err {
                    "D1.teardown.reg_err"
                } else {
                    "D1.teardown.silence"
                });
                if pre.gated || pre.latched {
                    rep.count("D2.teardown_of_gated_link_checked");
                }
                if !(by_silence || by_reg_err || by_send_error) {
                    rep.violation(
                        if pre.gated || pre.latched { "C08.D2.torn-down-for-routing-penalty" } else { "C08.D1.torn-down-early" },
                        format!("arm#{} t={t}: connected link {id:x} was torn down (attempt edge {attempt_edge}, socket replaced {sock_replaced}, disconnected {went_down}) although a datagram was delivered to it {:?} ms ago (timeout {}), no send error was armed and no REG_ERR arrived; gated={} latched={}", rec.no, silent_for, self.timeout, pre.gated, pre.latched),
                    );
                }
                if is_hk && !went_down && !sock_replaced && !attempt_edge {
                    rep.count("D1.odd");
                }
            }
            if is_hk && pre.connected && !teardown && (pre.gated || pre.latched) {
                rep.count("D2.gated_link_survived_housekeeping");
            }
            // ---- D3: detected --------------------------------------------------------------------------------------------
            // The property fixes the retry spacing only from below (>= 5 s) and above (back-off <= 120 s) and says
            // nothing about WHICH housekeeping pass re-opens a due link: jitter inside the bounds, one re-open per
            // pass and other lawful schedules must not be flagged (false alarms on benign patches M-2 / M-5,
            // DESIGN.md 9.4b). A silent connected link is therefore "due" only when it has been silent for the
            // timeout plus a few housekeeping periods (one per link, for deferral, plus two) and either no re-open was
            // ever attempted on it or the last one is more than the maximum back-off ago. Prompt recovery after a
            // repair is D5's business (30 s).
            let slack = self.max_hk_gap.max(1100) * (rec.post.len() as u64 + 2);
            if is_hk && pre.connected && silent_for.is_some_and(|s| s >= self.timeout) {
                // coverage: housekeeping arms at which a connected link has been silent for the timeout
                rep.count("D3.silent_links_watched");
            }
            if is_hk && pre.connected && silent_for.is_some_and(|s| s >= self.timeout + slack) {
                let since_attempt = if pre.reconnect_attempt_ms == 0 { u64::MAX } else { t.saturating_sub(pre.reconnect_attempt_ms) };
                let allowed = since_attempt >= 120_000 + slack;
                if allowed {
                    rep.count("D3.silent_link_due_for_teardown");
                    if !teardown {
                        rep.violation("C08.D3.silent-link-not-torn-down", format!("arm#{} t={t}: link {id:x} has heard nothing for {:?} ms (timeout {}), even the maximum back-off has expired ({} ms since the last re-open, {} failures) but housekeeping has not torn it down", rec.no, silent_for, self.timeout, since_attempt, pre.failure_count));
                    }
                } else {
                    rep.count("D3.silent_link_waiting_for_backoff");
                }
            }
            // ---- D4: retry spacing -------------------------------------------------------------------------------------------
            if attempt_edge {
                rep.count("D4.attempts");
                if let Some(prev) = lrec.last_attempt {
                    let gap = t - prev;
                    rep.max("max.D4.gap_between_attempts_ms", gap);
                    rep.max("max.D4.failure_count", pre.failure_count as u64);
                    let min_gap = if pre.established_ms == 0 { 1000 } else { 5000 };
                    if gap < min_gap {
                        rep.violation("C08.D4.retries-too-close", format!("arm#{} t={t}: reconnect attempts on link {id:x} {gap} ms apart (minimum {min_gap}, ever established: {})", rec.no, pre.established_ms != 0));
                    }
                    if !lrec.ever_connected || lrec.torn_down_at.is_some() {
                        // the link stayed down between the two attempts
                        if gap > 120_000 + 2 * self.max_hk_gap.max(1100) {
                            rep.violation("C08.D4.back-off-exceeds-120s", format!("arm#{} t={t}: {gap} ms between consecutive attempts on link {id:x} while it stayed down", rec.no));
                        }
                        if gap >= 119_000 {
                            rep.count("D4.plateau_gap_observed");
                        }
                    }
                }
                if pre.established_ms == 0 && t < lrec.created_at + 5000 && lrec.last_attempt.is_none() {
                    rep.violation("C08.D1.initial-registration-retried-inside-grace", format!("arm#{} t={t}: never-established link {id:x} re-opened {} ms after creation (start-up grace 5000)", rec.no, t - lrec.created_at));
                }
            }
            // ---- D5: rejoin, clean accounting ----------------------------------------------------------------------------------
            if !pre.connected && post.connected {
                rep.count("D5.rejoined");
                if lrec.was_reset_since_connected || !lrec.ever_connected {
                    if post.window != 20_000 || post.in_flight != 0 || !post.phase.starts_with("warming(0") {
                        rep.violation("C08.D5.rejoined-with-dirty-accounting", format!("arm#{} t={t}: link {id:x} rejoined with window {} in-flight {} phase {}", rec.no, post.window, post.in_flight, post.phase));
                    }
                    rep.count("D5.rejoined_clean_checked");
                }
                if let Some(f) = lrec.torn_down_at {
                    rep.max("max.D5.rejoin_ms_after_teardown", t - f);
                }
            }
            if !post.connected && fault.is_none() && t >= self.group_disturbed_until {
                let torn = if teardown && pre.connected { Some(t) } else { lrec.torn_down_at };
                let base = [lrec.clean_since, torn, Some(self.group_disturbed_until)].into_iter().flatten().max();
                if let Some(b) = base {
                    let bound = 30_000 + lrec.backoff_at_repair;
                    if t.saturating_sub(b) > bound && !lrec.d5_reported && (lrec.ever_connected || lrec.torn_down_at.is_some()) {
                        rep.violation("C08.D5.not-rejoined-within-bound", format!("arm#{} t={t}: link {id:x} has had a delivering path and an answering receiver since {b} ({} ms) and is still not connected (bound {bound} ms; reconnect failures {}, last attempt {} ms ago)", rec.no, t - b, post.failure_count, t.saturating_sub(post.reconnect_attempt_ms)));
                        self.links.get_mut(&id).unwrap().d5_reported = true;
                    }
                    rep.count("D5.down_but_repaired_checked");
                }
            }
            // ---- bookkeeping ----------------------------------------------------------------------------------------------------------
            let l = self.links.get_mut(&id).unwrap();
            if attempt_edge {
                l.last_attempt = Some(t);
            }
            if teardown && pre.connected {
                l.torn_down_at = Some(t);
            }
            if attempt_edge || sock_replaced || (went_down && broken) {
                l.was_reset_since_connected = true;
                l.heard = None;
            }
            if !pre.connected && post.connected {
                l.ever_connected = true;
                l.torn_down_at = None;
                l.was_reset_since_connected = false;
                l.heard = Some(t);
            }
        }
    }
}

#[derive(Clone, Copy, Debug, PartialEq, Eq)]
enum Fault {
    BlackHole,
    NoReturn,
    NoHandshakeReplies,
    BrokenSocket,
    BinderFail,
}

/// One fault-schedule case. Returns a short description for the evidence sample.
pub fn run_schedule(opts: StreamOpts, rng: &mut Rng, rep: &mut Report) -> Option<String> {
    let timeout = opts.cfg.conn_timeout_ms;
    let n = opts.n_links;
    let mut d = Driver::new(opts.clone(), rng);
    if d.sim.conns.len() != n {
        rep.inconclusive("harness I/O: uplinks could not be created".into());
        return None;
    }
    d.rxm.max_delay = *rng.pick(&[0u64, 20, 80]);
    let mut rm = RecoveryMon::new(timeout);
    let mut dm = DeliveryMon::new(timeout);
    macro_rules! mons {
        () => {
            &mut [&mut rm as &mut dyn Monitor, &mut dm as &mut dyn Monitor]
        };
    }
    if !d.establish(rng, mons!(), rep) {
        rep.inconclusive("session could not be established (sim receiver / harness)".into());
        return None;
    }
    rep.count("sim.sessions_established");
    // propagate the configured timeout the way production does: by a scheduling decision
    let (p, seq, is_data, retr) = d.gen_payload(rng);
    d.arm_client(p, seq, is_data, retr, rng, mons!(), rep);
    rm.on_stream_start(&d.sim);
    let plateau_case = rng.chance(1, 6);
    let total_ms: u64 = if plateau_case { 900_000 } else { *rng.pick(&[120_000u64, 240_000, 400_000, 900_000]) };
    let t_end = d.sim.now + total_ms;
    // schedule: per link a list of (start, duration, fault)
    let mut sched: Vec<(u64, u64, usize, Fault)> = Vec::new();
    let long_binder = rng.chance(1, 5);
    if plateau_case {
        // drive the back-off to its 120 s plateau and hold it for several attempts:
        // the binder fails for 700 s while link 1 is black-holed (a failed re-open keeps the old socket, so a
        // link whose path recovers re-registers over it; only a dead path keeps the failure count growing)
        sched.push((d.sim.now + 5_000, 700_000, 0, Fault::BinderFail));
        sched.push((d.sim.now + 8_000, 690_000, 1, Fault::BlackHole));
    }
    for li in 0..n {
        if plateau_case {
            break;
        }
        let mut t = d.sim.now + 2000 + rng.below(20_000);
        let phases = 2 + rng.usize_below(7);
        for _ in 0..phases {
            let f = *rng.pick(&[Fault::BlackHole, Fault::BlackHole, Fault::NoReturn, Fault::NoHandshakeReplies, Fault::BrokenSocket, Fault::BinderFail]);
            let dur = match f {
                Fault::BrokenSocket => 0,
                Fault::BinderFail if long_binder && li == 0 => 500_000,
                Fault::BinderFail => 8_000 + rng.below(60_000),
                _ => *rng.pick(&[800u64, timeout + 1500, timeout + 8000, 3 * timeout + 5000, 40_000]),
            };
            sched.push((t, dur, li, f));
            t += dur + 35_000 + rng.below(60_000);
            if t >= t_end {
                break;
            }
        }
    }
    // group-wide events
    let mut group_events: Vec<(u64, u8)> = Vec::new();
    if rng.chance(1, 2) {
        group_events.push((d.sim.now + 10_000 + rng.below(total_ms / 2), 0)); // receiver restart
    }
    if rng.chance(1, 3) {
        group_events.push((d.sim.now + 10_000 + rng.below(total_ms / 2), 1)); // all links down for a while
    }
    let mut active: Vec<(u64, usize, Fault)> = Vec::new(); // (until, link, fault)
    let mut binder_until: u64 = 0;
    let mut last_binder_failure_end: u64 = 0;
    let mut all_down_until: u64 = 0;
    let mut hk_period = 1000 + rng.below(100);
    let mut acc = 0.0f64;
    let mut desc: Vec<String> = Vec::new();
    let mut err_answers_left = 0u32;
    while d.sim.now < t_end {
        let dt = *rng.pick(&[5u64, 10, 15, 20, 30, 50]);
        d.sim.advance(dt);
        let now = d.sim.now;
        // ---- start / end faults ------------------------------------------------------------------------------------------------------------
        let mut k = 0;
        while k < sched.len() {
            let (start, dur, li, f) = sched[k];
            if start <= now && all_down_until == 0 {
                sched.remove(k);
                if li >= d.sim.conns.len() || active.iter().any(|a| a.1 == li) {
                    continue;
                }
                let id = d.sim.conn_id(li);
                let ip: IpAddr = link_ip(li);
                match f {
                    Fault::BlackHole => {
                        d.rxm.set_path(ip, Path::BlackHole);
                        rm.fault(id, "black_hole");
                        rep.count("fault.black_hole");
                    }
                    Fault::NoReturn => {
                        d.rxm.set_path(ip, Path::NoReturn);
                        rm.fault(id, "no_return");
                        rep.count("fault.no_return");
                    }
                    Fault::NoHandshakeReplies => {
                        d.rxm.set_path(ip, Path::NoHandshakeReplies);
                        rm.fault(id, "no_handshake_replies");
                        rep.count("fault.no_handshake_replies");
                    }
                    Fault::BrokenSocket => {
                        if d.sim.break_socket(li) {
                            d.broken.push(id);
                            rm.fault(id, "socket_send_error");
                            rep.count("fault.socket_send_error");
                        }
                    }
                    Fault::BinderFail => {
                        d.sim.binder.fail.store(true, Ordering::Relaxed);
                        binder_until = now + dur;
                        for c in d.sim.conns.iter() {
                            rm.fault(c.conn_id, "binder_failing");
                        }
                        rep.count("fault.binder_failure");
                    }
                }
                if desc.len() < 24 {
                    desc.push(format!("+{}s {:?} on link {li} for {dur} ms", (now + total_ms - t_end) / 1000, f));
                }
                if f != Fault::BinderFail {
                    active.push((now + dur, li, f));
                }
            } else {
                k += 1;
            }
        }
        let mut j = 0;
        while j < active.len() {
            let (until, li, f) = active[j];
            let id = if li < d.sim.conns.len() { d.sim.conn_id(li) } else { 0 };
            let done = match f {
                // a broken socket is repaired when the sender replaces it
                Fault::BrokenSocket => !d.broken.contains(&id),
                _ => now >= until,
            };
            if done && now >= all_down_until {
                active.remove(j);
                if f != Fault::BrokenSocket {
                    d.rxm.set_path(link_ip(li), Path::Healthy);
                }
                if binder_until == 0 {
                    let fc = d.sim.conns.get(li).map(|c| c.reconnection.reconnect_failure_count).unwrap_or(0);
                    rm.repaired(id, now, fc, now.saturating_sub(last_binder_failure_end) < 130_000 && last_binder_failure_end != 0);
                }
                rep.count(match f {
                    Fault::BlackHole => "repair.black_hole",
                    Fault::NoReturn => "repair.no_return",
                    Fault::NoHandshakeReplies => "repair.no_handshake_replies",
                    Fault::BrokenSocket => "repair.socket_replaced",
                    Fault::BinderFail => "repair.binder",
                });
            } else {
                j += 1;
            }
        }
        if binder_until != 0 && now >= binder_until {
            binder_until = 0;
            d.sim.binder.fail.store(false, Ordering::Relaxed);
            rep.count("repair.binder");
            for (li, c) in d.sim.conns.iter().enumerate() {
                if !active.iter().any(|a| a.1 == li) {
                    rm.repaired(c.conn_id, now, c.reconnection.reconnect_failure_count, true);
                }
            }
            last_binder_failure_end = now;
        }
        let mut g = 0;
        while g < group_events.len() {
            if group_events[g].0 <= now && active.is_empty() && binder_until == 0 {
                let (_, kind) = group_events.remove(g);
                if kind == 0 {
                    d.rxm.forget_group();
                    err_answers_left = if rng.chance(1, 2) { 1 + rng.below(3) as u32 } else { 0 };
                    d.rxm.forget_group_answers_err = err_answers_left > 0;
                    rm.group_disturbed_until = now + timeout + 3000;
                    rep.count("fault.receiver_forgot_group");
                    if desc.len() < 24 {
                        desc.push(format!("+{}s receiver forgot the group (REG_ERR answers: {err_answers_left})", (now + total_ms - t_end) / 1000));
                    }
                } else {
                    let dur = timeout + 2000 + rng.below(15_000);
                    all_down_until = now + dur;
                    for li in 0..d.sim.conns.len() {
                        d.rxm.set_path(link_ip(li), Path::BlackHole);
                        rm.fault(d.sim.conn_id(li), "all_links_down");
                    }
                    rep.count("fault.all_links_down");
                    if desc.len() < 24 {
                        desc.push(format!("+{}s all links black-holed for {dur} ms", (now + total_ms - t_end) / 1000));
                    }
                }
            } else {
                g += 1;
            }
        }
        if all_down_until != 0 && now >= all_down_until {
            all_down_until = 0;
            for li in 0..d.sim.conns.len() {
                d.rxm.set_path(link_ip(li), Path::Healthy);
                let c = &d.sim.conns[li];
                rm.repaired(c.conn_id, now, c.reconnection.reconnect_failure_count, now.saturating_sub(last_binder_failure_end) < 130_000 && last_binder_failure_end != 0);
            }
            rm.group_disturbed_until = now;
            rep.count("repair.all_links_back");
        }
        if d.rxm.forget_group_answers_err && d.rxm.group.is_none() {
            // REG_ERR answers are transient: after a few the receiver answers REG_NGP
            let answered = d.rxm.pending.iter().filter(|r| r.kind == "REG_ERR").count() as u32;
            if answered > 0 {
                err_answers_left = err_answers_left.saturating_sub(answered);
                if err_answers_left == 0 {
                    d.rxm.forget_group_answers_err = false;
                }
            }
        }
        // ---- arms ------------------------------------------------------------------------------------------------------------------------------
        d.deliver_due(rng, mons!(), rep);
        acc += 0.02 * dt as f64;
        while acc >= 1.0 {
            acc -= 1.0;
            let (p, seq, is_data, retr) = d.gen_payload(rng);
            d.arm_client(p, seq, is_data, retr, rng, mons!(), rep);
        }
        if now.saturating_sub(d.last_flush) >= 15 {
            d.arm_flush(rng, mons!(), rep);
        }
        if now.saturating_sub(d.last_hk) >= hk_period {
            d.arm_housekeeping(rng, mons!(), rep);
            hk_period = 1000 + rng.below(100);
        }
    }
    d.sim.advance(15);
    d.arm_flush(rng, mons!(), rep);
    dm.finish(&d.inj, &d.sim, rep);
    if plateau_case {
        rep.count("plateau.cases");
        if std::env::var("VERIF_DEBUG").is_ok() {
            eprintln!("plateau case: timeout {timeout} links {:?} desc {desc:?}", d.sim.conns.iter().map(|c| (c.connected, c.reconnection.reconnect_failure_count, c.reconnection.last_reconnect_attempt_ms)).collect::<Vec<_>>());
        }
    }
    rep.add("sim.arms", d.arm_no as u64);
    rep.add("virtual_seconds", total_ms / 1000);
    for w in d.arm_codes.windows(6) {
        rep.distinct(crate::prng::hash_u64s(w) ^ 0x77);
    }
    if !d.sim.io_errors.is_empty() {
        rep.inconclusive(format!("harness I/O errors: {:?}", &d.sim.io_errors[..d.sim.io_errors.len().min(3)]));
        return None;
    }
    Some(format!("{} links, timeout {timeout} ms, {} virtual s; {}", n, total_ms / 1000, desc.join("; ")))
}
