//! C19 — IP-list reload: parser differential + structural before/after checker around
//! the REAL `apply_connection_changes`, mid-stream, with live sockets.

use std::collections::{HashMap, HashSet};
use std::net::{IpAddr, Ipv4Addr};
use std::str::FromStr;
use std::sync::Arc;

use srtla_send::sender::verif_hooks as vh;

use super::classic_ref::OwnerModel;
use super::monitors::{DeliveryMon, routing_of};
use super::stream::{ArmKind, ArmRecord, Driver, Injected, Monitor, StreamOpts};
use super::Sim;
use crate::prng::Rng;
use crate::props::c12::fingerprint;
use crate::report::Report;

/// Reference parser, written from the property: parsable lines, in order.
pub fn ref_parse(text: &str) -> Vec<IpAddr> {
    let mut out = Vec::new();
    for raw in text.split('\n') {
        let line = raw.strip_suffix('\r').unwrap_or(raw);
        let t = line.trim_matches(|c: char| c.is_whitespace());
        if t.is_empty() {
            continue;
        }
        if let Ok(ip) = IpAddr::from_str(t) {
            out.push(ip);
        }
    }
    out
}

pub fn gen_file_text(rng: &mut Rng, pool: &[IpAddr]) -> String {
    let lines = rng.usize_below(9);
    let mut s = String::new();
    for _ in 0..lines {
        let ip = pool[rng.usize_below(pool.len())];
        let item = match rng.below(14) {
            0 => String::new(),
            1 => "   \t ".to_string(),
            2 => format!("  {ip}  "),
            3 => format!("\t{ip}"),
            4 => "::1".to_string(),
            5 => "not-an-ip".to_string(),
            6 => format!("{ip} # uplink"),
            7 => format!("{ip}:5000"),
            8 => "256.1.1.1".to_string(),
            9 => "127.0.0.010".to_string(),
            10 => format!("{ip}\u{a0}"),
            _ => ip.to_string(),
        };
        s.push_str(&item);
        s.push_str(match rng.below(6) {
            0 => "\r\n",
            1 => "\n\n",
            _ => "\n",
        });
    }
    if rng.chance(1, 5) && s.ends_with('\n') {
        s.pop();
    }
    s
}

/// Tracks which link carried each recently routed sequence number (monitor's own record).
struct OwnerTrack {
    owners: OwnerModel,
    recent: Vec<(u32, u64, u64)>,
}

impl Monitor for OwnerTrack {
    fn on_arm(&mut self, rec: &ArmRecord, inj: &[Injected], _sim: &Sim, _rep: &mut Report) {
        if let ArmKind::Client { inj: k } = rec.kind {
            let d = &inj[k];
            let (uniq, _) = routing_of(rec, d.bytes.len());
            if let (Some(u), Some(s)) = (uniq, d.seq) {
                self.owners.route(s, u, rec.t);
                self.recent.push((s, u, rec.t));
                if self.recent.len() > 4000 {
                    self.recent.drain(0..2000);
                }
            }
        }
    }
}

pub fn run_reload_case(opts: StreamOpts, rng: &mut Rng, rep: &mut Report, case_tag: u64) -> Option<serde_json::Value> {
    let timeout = opts.cfg.conn_timeout_ms;
    let pool: Vec<IpAddr> = (10..31u8).map(|x| IpAddr::V4(Ipv4Addr::new(127, 0, 0, x))).collect();
    let n0 = opts.n_links;
    let mut d = Driver::new(opts.clone(), rng);
    d.sim.defer_apply = true;
    let mut dm = DeliveryMon::new(timeout);
    let mut ot = OwnerTrack { owners: OwnerModel::new(), recent: Vec::new() };
    macro_rules! mons {
        () => {
            &mut [&mut dm as &mut dyn Monitor, &mut ot as &mut dyn Monitor]
        };
    }
    if d.sim.conns.len() != n0 || !d.establish(rng, mons!(), rep) {
        rep.inconclusive("session could not be established (sim receiver / harness)".into());
        return None;
    }
    rep.count("sim.sessions_established");
    let path = format!("/tmp/verif-c19-{}-{}-{}.ips", std::process::id(), case_tag, rng.below(1 << 30));
    let reloads = 2 + rng.usize_below(9);
    let mut log: Vec<String> = Vec::new();
    let mut hk_period = 1000 + rng.below(100);
    for _ in 0..reloads {
        // ---- stream for a while --------------------------------------------------------------------------------------------
        let ticks = 150 + rng.usize_below(500);
        for _ in 0..ticks {
            d.sim.advance(*rng.pick(&[1u64, 2, 5, 10, 15, 20]));
            d.deliver_due(rng, mons!(), rep);
            for _ in 0..rng.below(4) {
                let (p, seq, is_data, retr) = d.gen_payload(rng);
                d.arm_client(p, seq, is_data, retr, rng, mons!(), rep);
            }
            if d.sim.now.saturating_sub(d.last_flush) >= 15 {
                d.arm_flush(rng, mons!(), rep);
            }
            if d.sim.now.saturating_sub(d.last_hk) >= hk_period {
                d.arm_housekeeping(rng, mons!(), rep);
                hk_period = 1000 + rng.below(100);
            }
        }
        // leave a few datagrams queued and in flight
        for _ in 0..rng.below(6) {
            let (p, seq, is_data, retr) = d.gen_payload(rng);
            d.arm_client(p, seq, is_data, retr, rng, mons!(), rep);
        }
        // ---- SIGHUP arm ---------------------------------------------------------------------------------------------------------
        let kind = rng.below(10);
        let text: Option<String> = match kind {
            0 => None, // missing file
            1 => Some(String::new()),
            2 => Some("\n  \n\t\n".to_string()),
            3 => Some("garbage\nmore garbage\n999.1.1.1\n".to_string()),
            4..=5 => Some(gen_file_text(rng, &pool)),
            _ => {
                // a meaningful new set: keep some, drop some, add some, maybe duplicates
                let cur: Vec<IpAddr> = d.sim.conns.iter().map(|c| c.local_ip).collect();
                let mut set: Vec<IpAddr> = Vec::new();
                for ip in cur.iter() {
                    if rng.chance(2, 3) {
                        set.push(*ip);
                    }
                }
                // sometimes aim at the currently selected link
                if let Some(i) = d.sim.last_selected_idx
                    && rng.chance(1, 3)
                    && let Some(c) = d.sim.conns.get(i)
                {
                    let ip = c.local_ip;
                    set.retain(|x| *x != ip);
                    rep.count("reload.aimed_at_selected_link");
                }
                for _ in 0..rng.below(3) {
                    set.push(pool[rng.usize_below(pool.len())]);
                }
                if rng.chance(1, 4) && !set.is_empty() {
                    let dup = set[rng.usize_below(set.len())];
                    set.push(dup);
                }
                if set.len() > 4 {
                    set.truncate(4);
                }
                rng.shuffle(&mut set);
                Some(set.iter().map(|ip| format!("{ip}\n")).collect())
            }
        };
        let _ = std::fs::remove_file(&path);
        if let Some(t) = &text
            && std::fs::write(&path, t).is_err()
        {
            rep.inconclusive("harness I/O: cannot write the ips file".into());
            return None;
        }
        let expect = text.as_deref().map(ref_parse).unwrap_or_default();
        let before_fp: Vec<(u64, u64)> = d.sim.conns.iter().map(|c| (c.conn_id, fingerprint(c))).collect();
        let before_io: HashSet<u64> = d.sim.conn_io.keys().copied().collect();
        let verdict = d.sim.arm_sighup(&path);
        rep.eval();
        rep.count("reload.sighup_arms");
        match &verdict {
            vh::IpReload::Refuse(why) => {
                rep.count(match (text.is_none(), expect.is_empty(), text.as_deref().map(|t| t.trim().is_empty())) {
                    (true, _, _) => "reload.refused.missing_file",
                    (_, _, Some(true)) => "reload.refused.empty",
                    _ => "reload.refused.no_valid_address",
                });
                if !expect.is_empty() {
                    rep.violation("C19.parser.refused-although-parsable", format!("file {text:?} has parsable addresses {expect:?} but the reload was refused ({why:?})"));
                }
                let after_fp: Vec<(u64, u64)> = d.sim.conns.iter().map(|c| (c.conn_id, fingerprint(c))).collect();
                let after_io: HashSet<u64> = d.sim.conn_io.keys().copied().collect();
                if after_fp != before_fp || after_io != before_io || d.sim.pending_ips.is_some() {
                    rep.violation("C19.refusal.touched-links", "a refused reload changed link state, the I/O map or queued a change".into());
                }
                log.push(format!("refuse({:?})", text.as_deref().map(|t| t.len())));
                continue;
            }
            vh::IpReload::Apply { ips, .. } => {
                if expect.is_empty() {
                    rep.violation("C19.parser.applied-without-parsable-address", format!("file {text:?} has no parsable address but {ips:?} was applied"));
                    d.sim.pending_ips = None;
                    continue;
                }
                if ips.as_slice() != expect.as_slice() {
                    rep.violation("C19.parser.list-differs", format!("file {text:?}: applied list {ips:?}, reference (parsable lines in order) {expect:?}"));
                }
            }
        }
        // IPv6 loopback cannot reach the IPv4 receiver socket: such entries never yield a link
        let applied: Vec<IpAddr> = expect.clone();
        // ---- more arms until the housekeeping arm that applies it ----------------------------------------------------------------------------
        for _ in 0..rng.below(30) {
            d.sim.advance(*rng.pick(&[1u64, 5, 15]));
            let (p, seq, is_data, retr) = d.gen_payload(rng);
            d.arm_client(p, seq, is_data, retr, rng, mons!(), rep);
        }
        let wait = hk_period.saturating_sub(d.sim.now.saturating_sub(d.last_hk));
        d.sim.advance(wait);
        d.arm_housekeeping(rng, mons!(), rep);
        hk_period = 1000 + rng.below(100);
        // ---- snapshot, apply (production function), compare ----------------------------------------------------------------------------------------
        let now = d.sim.now;
        struct Before {
            id: u64,
            ip: IpAddr,
            label: String,
            fp: u64,
            sock: usize,
        }
        let before: Vec<Before> = d.sim.conns.iter().enumerate().map(|(i, c)| Before { id: c.conn_id, ip: c.local_ip, label: c.label.clone(), fp: fingerprint(c), sock: d.sim.socket_ptr(i) }).collect();
        let sel_before = d.sim.last_selected_idx.and_then(|i| d.sim.conns.get(i)).map(|c| c.conn_id);
        let sel_idx_before = d.sim.last_selected_idx;
        let tracked: Vec<(u32, u64)> = ot.recent.iter().rev().take(600).filter(|(s, _, _)| ot.owners.remembered(*s, now).is_some()).map(|(s, _, _)| (*s, ot.owners.remembered(*s, now).unwrap())).collect();
        if !d.sim.apply_pending() {
            rep.violation("C19.apply.not-queued", "an accepted reload was not queued for the housekeeping arm".into());
            continue;
        }
        rep.eval();
        let port = d.sim.rx_addr.port();
        let label_of = |ip: &IpAddr| format!("127.0.0.1:{port} via {ip}");
        let new_labels: HashSet<String> = applied.iter().map(label_of).collect();
        let survivors: Vec<&Before> = before.iter().filter(|b| new_labels.contains(&b.label)).collect();
        let removed: Vec<&Before> = before.iter().filter(|b| !new_labels.contains(&b.label)).collect();
        let old_ips: HashSet<IpAddr> = before.iter().map(|b| b.ip).collect();
        let mut added_ips: Vec<IpAddr> = Vec::new();
        for ip in applied.iter() {
            if !old_ips.contains(ip) && !added_ips.contains(ip) && ip.is_ipv4() {
                added_ips.push(*ip);
            }
        }
        let v6_new = applied.iter().any(|ip| !ip.is_ipv4());
        if !removed.is_empty() && !added_ips.is_empty() {
            rep.count("reload.applied_with_removals_and_additions");
        }
        if !removed.is_empty() {
            rep.count("reload.applied_with_removals");
        }
        if !added_ips.is_empty() {
            rep.count("reload.applied_with_additions");
        }
        if removed.iter().any(|b| Some(b.id) == sel_before) {
            rep.count("reload.removed_the_selected_link");
        }
        if survivors.len() == 1 && before.len() > 1 {
            rep.count("reload.removed_all_but_one");
        }
        rep.count("reload.applies");
        // expected list
        let got: Vec<(u64, IpAddr)> = d.sim.conns.iter().map(|c| (c.conn_id, c.local_ip)).collect();
        let exp_ips: Vec<IpAddr> = survivors.iter().map(|b| b.ip).chain(added_ips.iter().copied()).collect();
        let got_ips: Vec<IpAddr> = got.iter().map(|x| x.1).collect();
        if got_ips != exp_ips {
            let sig = if got_ips.len() > exp_ips.len() {
                "C19.apply.extra-link"
            } else if got_ips.len() < exp_ips.len() {
                "C19.apply.missing-link"
            } else {
                "C19.apply.link-order-or-identity"
            };
            rep.violation(sig, format!("t={now}: old links {:?}, applied list {applied:?}: links are now {got_ips:?}, expected survivors in old order followed by each new address once: {exp_ips:?}", before.iter().map(|b| b.ip).collect::<Vec<_>>()));
        }
        // survivors untouched
        for b in survivors.iter() {
            let Some((i, c)) = d.sim.conns.iter().enumerate().find(|(_, c)| c.conn_id == b.id) else {
                rep.violation("C19.apply.survivor-lost-identity", format!("t={now}: the uplink on {} is still listed but its conn_id {:x} is gone", b.ip, b.id));
                continue;
            };
            if d.sim.socket_ptr(i) != b.sock {
                rep.violation("C19.apply.survivor-socket-replaced", format!("t={now}: surviving uplink {} got a different socket", b.ip));
            }
            if fingerprint(c) != b.fp {
                rep.violation("C19.apply.survivor-state-changed", format!("t={now}: protocol state of surviving uplink {} changed across the reload (now connected={} window={} in_flight={} phase={})", b.ip, c.connected, c.window, c.in_flight_packets, c.phase));
            }
            rep.count("reload.survivors_compared");
        }
        // removed links: I/O handle and attribution records gone
        for b in removed.iter() {
            if d.sim.conn_io.contains_key(&b.id) {
                rep.violation("C19.apply.removed-link-keeps-io", format!("t={now}: removed uplink {} still has an I/O handle", b.ip));
            }
            dm.link_removed(b.id);
            ot.owners.remove_link(b.id);
        }
        let io_keys: HashSet<u64> = d.sim.conn_io.keys().copied().collect();
        let live: HashSet<u64> = d.sim.conns.iter().map(|c| c.conn_id).collect();
        if io_keys != live {
            rep.violation("C19.apply.io-map-mismatch", format!("t={now}: I/O map keys differ from the live links ({} vs {})", io_keys.len(), live.len()));
        }
        let removed_ids: HashSet<u64> = removed.iter().map(|b| b.id).collect();
        for (s, owner) in tracked.iter() {
            let r = d.sim.seq_tracker.get(*s, now);
            if removed_ids.contains(owner) {
                rep.count("reload.tracker_records_of_removed_checked");
                if r.is_some() {
                    rep.violation("C19.apply.attribution-record-of-removed-link-kept", format!("t={now}: sequence {s} was carried by removed uplink {owner:x}; the tracker still resolves it to {r:x?}"));
                    break;
                }
            } else {
                rep.count("reload.tracker_records_of_survivors_checked");
                if r != Some(*owner) {
                    rep.violation("C19.apply.attribution-record-of-survivor-lost", format!("t={now}: sequence {s} carried by surviving uplink {owner:x} no longer resolves ({r:x?})"));
                    break;
                }
            }
        }
        // new links
        for ip in added_ips.iter() {
            let Some((i, c)) = d.sim.conns.iter().enumerate().find(|(_, c)| c.local_ip == *ip && !before.iter().any(|b| b.id == c.conn_id)) else { continue };
            let io = d.sim.conn_io.get(&c.conn_id);
            let bound_ok = io.and_then(|io| io.socket.get_ref().local_addr().ok()).and_then(|a| a.as_socket()).is_some_and(|a| a.ip() == *ip);
            if c.connected || c.is_schedulable() || !bound_ok {
                rep.violation("C19.apply.new-link-state", format!("t={now}: new uplink {ip} (#{i}): connected={} schedulable={} I/O entry bound to its source address={bound_ok}", c.connected, c.is_schedulable()));
            }
            if before.iter().any(|b| b.ip == *ip) {
                rep.count("reload.readded_address");
            }
            rep.count("reload.new_links_checked");
        }
        // routing choice forgotten iff something was removed
        if !removed.is_empty() {
            if d.sim.last_selected_idx.is_some() {
                rep.violation("C19.apply.routing-choice-kept-after-removal", format!("t={now}: uplinks were removed but last_selected_idx is still {:?}", d.sim.last_selected_idx));
            }
        } else {
            let sel_after = d.sim.last_selected_idx.and_then(|i| d.sim.conns.get(i)).map(|c| c.conn_id);
            if sel_after != sel_before || d.sim.last_selected_idx != sel_idx_before {
                rep.violation("C19.apply.routing-choice-changed-without-removal", format!("t={now}: nothing was removed but the previous routing choice moved from {sel_before:x?} to {sel_after:x?}"));
            }
        }
        rep.distinct(crate::prng::hash_u64s(&[before.len() as u64, survivors.len() as u64, removed.len() as u64, added_ips.len() as u64, (sel_before.is_some() as u64) | (removed.iter().any(|b| Some(b.id) == sel_before) as u64) << 1, applied.len() as u64, v6_new as u64]));
        log.push(format!("apply {:?} -> {:?}", before.iter().map(|b| b.ip.to_string()).collect::<Vec<_>>(), got_ips.iter().map(|x| x.to_string()).collect::<Vec<_>>()));
        if d.sim.conns.is_empty() {
            // every listed address was new and unusable here (IPv6 loopback towards the IPv4 receiver socket):
            // the property does not promise a link in that case; nothing more to observe in this case
            rep.count("reload.left_no_links_because_new_addresses_unusable");
            break;
        }
        let _ = Arc::strong_count(&d.sim.binder);
    }
    let _ = std::fs::remove_file(&path);
    d.sim.advance(15);
    d.arm_flush(rng, mons!(), rep);
    dm.finish(&d.inj, &d.sim, rep);
    if !d.sim.io_errors.is_empty() {
        rep.inconclusive(format!("harness I/O errors: {:?}", &d.sim.io_errors[..d.sim.io_errors.len().min(3)]));
        return None;
    }
    let _ = HashMap::<u8, u8>::new();
    Some(serde_json::json!({"initial_links": n0, "reload_sequence": log}))
}
