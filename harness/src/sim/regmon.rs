//! C07 — online trace-specification checker R1..R8 for the registration handshake,
//! over the REG1 / REG2 frames seen on the wire and the accessor-visible manager state.

use super::Sim;
use super::stream::{ArmKind, ArmRecord, Injected, LinkSnap, Monitor};
use crate::refcodec as rc;
use crate::report::Report;

pub struct RegMon {
    /// open attempt: (conn_id of the link REG1 went out on, time of the last REG1 on it)
    attempt: Option<(u64, u64)>,
    /// an adoption happened and its broadcast round has not been seen yet
    broadcast_due: bool,
    pub abstract_states: std::collections::HashSet<u64>,
    last_event: u64,
}

impl Default for RegMon {
    fn default() -> Self {
        Self::new()
    }
}

impl RegMon {
    pub fn new() -> Self {
        RegMon { attempt: None, broadcast_due: false, abstract_states: Default::default(), last_event: 0 }
    }
}

fn find<'a>(v: &'a [LinkSnap], id: u64) -> Option<&'a LinkSnap> {
    v.iter().find(|l| l.conn_id == id)
}

impl Monitor for RegMon {
    fn on_arm(&mut self, rec: &ArmRecord, _inj: &[Injected], _sim: &Sim, rep: &mut Report) {
        let (Some(rp), Some(rq)) = (rec.reg_pre.as_ref(), rec.reg_post.as_ref()) else { return };
        let t = rec.t;
        rep.eval();
        let is_hk = matches!(rec.kind, ArmKind::Housekeeping { .. });
        let (up_link, up_bytes): (Option<u64>, &[u8]) = match &rec.kind {
            ArmKind::Uplink { conn_id, bytes, .. } => (Some(*conn_id), bytes.as_slice()),
            _ => (None, &[]),
        };
        let up_type = rc::ptype(up_bytes);
        let idx_of = |id: u64| rec.pre.iter().position(|l| l.conn_id == id);
        self.last_event = match (&rec.kind, up_type) {
            (ArmKind::Housekeeping { .. }, _) => 1,
            (_, Some(0x9211)) => 2,
            (_, Some(0x9201)) if up_bytes.len() >= 258 => 3,
            (_, Some(0x9201)) => 4,
            (_, Some(0x9202)) => 5,
            (_, Some(0x9210)) => 6,
            _ => 7,
        };

        let attempt_before = self.attempt;
        // ---- the attempt closes ------------------------------------------------------------------------------
        if let Some((a, t_open)) = self.attempt {
            if is_hk && t >= t_open + 4000 {
                // R8(i): an attempt unanswered for 4 s is closed by the next housekeeping arm
                rep.count("R8.timeout_closed_by_housekeeping");
                let reopened = rec.rx.iter().any(|(_, _, b)| rc::is_reg1(b));
                if rq.pending.is_some() && !reopened {
                    rep.violation("C07.R8.unanswered-attempt-not-abandoned", format!("arm#{} t={t}: REG1 went out on link {a:x} at {t_open} (>= 4000 ms ago), the housekeeping arm left the attempt pending ({:?}, deadline {})", rec.no, rq.pending, rq.pending_timeout_at));
                }
                self.attempt = None;
            } else if up_link == Some(a) && up_type == Some(0x9201) && up_bytes.len() >= 258 {
                self.attempt = None;
                rep.count("R1.attempt_closed_by_reg2");
            } else if up_type == Some(0x9210) {
                self.attempt = None;
                rep.count("R1.attempt_closed_by_reg_err");
            }
        }
        let attempt_at_arm = self.attempt;

        // ---- frames emitted in this arm --------------------------------------------------------------------------
        let mut reg2_per_link: std::collections::HashMap<u64, u32> = Default::default();
        for (cid, ip, b) in rec.rx.iter() {
            let Some(id) = *cid else { continue };
            if rc::is_reg1(b) {
                rep.count("wire.reg1");
                // R5: carries the current id
                if b[2..258] != rq.id[..] {
                    rep.violation("C07.R5.reg1-with-stale-id", format!("arm#{} t={t}: REG1 on {ip} carries an id different from the currently adopted one", rec.no));
                }
                // R1: one outstanding REG1
                if let Some((a, t_open)) = self.attempt
                    && a != id
                {
                    rep.violation("C07.R1.reg1-outstanding-on-two-links", format!("arm#{} t={t}: REG1 emitted on link {id:x} while the attempt on link {a:x} (REG1 at {t_open}) is still open (no full REG2 on it, no REG_ERR, no housekeeping arm at/after {})", rec.no, t_open + 4000));
                } else if self.attempt.is_some() {
                    rep.count("R1.resend_on_same_link");
                }
                if self.attempt.is_none() {
                    rep.count("R1.attempt_opened");
                }
                self.attempt = Some((id, t));
                // R2: the driver step emits REG1 only while no uplink is registered
                if is_hk {
                    let reconnect_resend = find(&rec.pre, id).zip(find(&rec.post, id)).is_some_and(|(p, q)| p.reconnect_attempt_ms != q.reconnect_attempt_ms) && attempt_at_arm.is_some_and(|(a, _)| a == id);
                    if !reconnect_resend {
                        rep.count("R2.driver_reg1");
                        if rec.post.iter().any(|l| l.connected) {
                            rep.violation("C07.R2.driver-reg1-while-registered", format!("arm#{} t={t}: the registration driver emitted REG1 on link {id:x} although links {:?} are connected", rec.no, rec.post.iter().filter(|l| l.connected).map(|l| format!("{:x}", l.conn_id)).collect::<Vec<_>>()));
                        }
                    } else {
                        rep.count("R2.reconnect_resend_reg1");
                    }
                } else {
                    rep.count("R8.immediate_reg1_on_reg_ngp");
                    if up_type != Some(0x9211) || up_link != Some(id) {
                        rep.violation("C07.R1.reg1-outside-driver-and-ngp", format!("arm#{} t={t}: REG1 on link {id:x} emitted in an arm that is neither housekeeping nor a REG_NGP on that link", rec.no));
                    }
                }
            } else if rc::is_reg2(b) {
                rep.count("wire.reg2");
                *reg2_per_link.entry(id).or_default() += 1;
                if b[2..258] != rq.id[..] {
                    rep.violation("C07.R5.reg2-with-stale-id", format!("arm#{} t={t}: registration REG2 on {ip} does not carry the currently adopted id", rec.no));
                }
                if !is_hk {
                    rep.violation("C07.R4.reg2-outside-housekeeping", format!("arm#{} t={t}: REG2 emitted outside a housekeeping arm", rec.no));
                }
            }
        }

        // ---- R3: adoption ----------------------------------------------------------------------------------------------
        if rp.id != rq.id {
            rep.count("R3.adoptions");
            let lawful = up_type == Some(0x9201) && up_bytes.len() >= 258 && attempt_before.is_some_and(|(a, _)| Some(a) == up_link) && attempt_at_arm_before_close(rec, rp, up_link, idx_of);
            if !lawful {
                rep.violation("C07.R3.id-changed-unlawfully", format!("arm#{} t={t}: the adopted id changed in an arm that is not a full-length REG2 on the link of the pending attempt (arm {:?}, {} bytes, pending before {:?})", rec.no, rec.kind.code(), up_bytes.len(), rp.pending));
            } else if up_bytes[2..258] != rq.id[..] {
                rep.violation("C07.R3.adopted-id-differs-from-reg2", format!("arm#{}: adopted id is not bytes 2..258 of the accepted REG2", rec.no));
            }
            if self.broadcast_due {
                rep.count("R4.second_adoption_before_broadcast");
            }
            self.broadcast_due = true;
        } else if up_type == Some(0x9201) {
            // REG2 that must change nothing
            let class = if up_bytes.len() < 258 {
                "short"
            } else if rp.pending.is_none() {
                "no_attempt"
            } else if up_link.and_then(idx_of) != rp.pending {
                "wrong_link"
            } else {
                "same_id"
            };
            rep.count(&format!("R3.reg2_ignored.{class}"));
            if class != "same_id" && (rq.broadcast_pending && !rp.broadcast_pending) {
                rep.violation(&format!("C07.R3.reg2-accepted.{class}"), format!("arm#{} t={t}: a {class} REG2 ({} bytes) armed a broadcast round", rec.no, up_bytes.len()));
            }
            if class == "same_id" {
                // accepted REG2 carrying the id we already had: still an adoption round
                self.broadcast_due = true;
                rep.count("R3.adoptions");
            }
        }

        // ---- R4: exactly one broadcast round per adoption ---------------------------------------------------------------------
        if is_hk {
            let pending_after_clear = if rp.pending.is_some() && rp.pending_timeout_at != 0 && t >= rp.pending_timeout_at { None } else { rp.pending };
            let round = rp.broadcast_pending;
            if round {
                rep.count("R4.broadcast_rounds");
                if !self.broadcast_due {
                    rep.violation("C07.R4.broadcast-without-adoption", format!("arm#{} t={t}: a REG2 broadcast round without a new adoption", rec.no));
                }
                self.broadcast_due = false;
            } else if self.broadcast_due {
                rep.violation("C07.R4.broadcast-missing", format!("arm#{} t={t}: an id was adopted but the next housekeeping arm did not broadcast it", rec.no));
                self.broadcast_due = false;
            }
            if rq.broadcast_pending {
                rep.violation("C07.R4.broadcast-flag-not-cleared", format!("arm#{} t={t}: the broadcast flag survived the housekeeping arm (a second round would follow)", rec.no));
            }
            for (i, post) in rec.post.iter().enumerate() {
                let Some(pre) = find(&rec.pre, post.conn_id) else { continue };
                let reconnect_step = pre.reconnect_attempt_ms != post.reconnect_attempt_ms;
                let recon_reg2 = reconnect_step && pending_after_clear.is_none();
                let expect = round as u32 + recon_reg2 as u32;
                let got = reg2_per_link.get(&post.conn_id).copied().unwrap_or(0);
                if got != expect && !rec.broken.contains(&post.conn_id) {
                    rep.violation(
                        if got > expect { "C07.R4.extra-reg2" } else { "C07.R4.link-missed-broadcast" },
                        format!("arm#{} t={t}: link #{i} {:x} emitted {got} REG2 frame(s), expected {expect} (broadcast round {round}, reconnect step with REG2 {recon_reg2})", rec.no, post.conn_id),
                    );
                }
                if recon_reg2 {
                    rep.count("R4.single_link_reconnect_reg2");
                }
            }
        }

        // ---- R6: connected only on REG3 on that link -------------------------------------------------------------------------------
        for post in rec.post.iter() {
            if let Some(pre) = find(&rec.pre, post.conn_id)
                && !pre.connected
                && post.connected
            {
                rep.count("R6.became_connected");
                if !(up_type == Some(0x9202) && up_link == Some(post.conn_id)) {
                    rep.violation("C07.R6.connected-without-reg3", format!("arm#{} t={t}: link {:x} became connected in an arm that did not process a REG3 on it (arm {:?}, type {up_type:02x?} on {:?})", rec.no, post.conn_id, rec.kind.code(), up_link.map(|x| format!("{x:x}"))));
                }
            }
        }
        if up_type == Some(0x9202)
            && let Some(l) = up_link
            && let Some(post) = find(&rec.post, l)
        {
            rep.count("R6.reg3_processed");
            if !post.connected {
                rep.violation("C07.R6.reg3-did-not-connect", format!("arm#{} t={t}: REG3 on link {l:x} left it disconnected", rec.no));
            }
        }
        // ---- R7: REG_ERR cancels the pending attempt -----------------------------------------------------------------------------------
        if up_type == Some(0x9210) {
            rep.count("R7.reg_err_processed");
            if rp.pending.is_some() {
                rep.count("R7.reg_err_while_pending");
            }
            if rq.pending.is_some() {
                rep.violation("C07.R7.reg-err-keeps-pending", format!("arm#{} t={t}: after REG_ERR the attempt is still pending ({:?})", rec.no, rq.pending));
            }
        }
        // ---- R8(ii): REG_NGP while idle yields an immediate REG1 ----------------------------------------------------------------------------
        if up_type == Some(0x9211)
            && let Some(l) = up_link
        {
            rep.count("R8.reg_ngp_processed");
            let idle = !rp.probing && rp.pending.is_none() && rp.active == 0 && rec.pre.iter().all(|x| !x.connected) && attempt_at_arm.is_none();
            if rp.pending.is_some() {
                rep.count("R8.reg_ngp_while_pending");
            }
            if idle {
                rep.count("R8.reg_ngp_while_idle");
                let sent = rec.rx.iter().any(|(cid, _, b)| *cid == Some(l) && rc::is_reg1(b));
                // An IMMEDIATE REG1 in answer to REG_NGP is what the code does today, but the property only requires
                // that a new attempt CAN start (the 4 s abandon; C08 bounds the recovery time): an implementation that
                // honours a hold-off after REG_ERR first is just as lawful (false alarm on benign patch L-4,
                // DESIGN.md 9.4b). Information only.
                if sent {
                    rep.count("R8.info.immediate_reg1_on_reg_ngp");
                } else if !rec.broken.contains(&l) {
                    rep.count("R8.info.no_immediate_reg1_on_reg_ngp");
                }
            }
        }
        // late REG2 after the time-out (coverage)
        if up_type == Some(0x9201) && up_bytes.len() >= 258 && rp.pending.is_none() {
            rep.count("late_or_unsolicited_full_reg2");
        }
        if up_type == Some(0x9202) && rec.pre.iter().all(|l| !l.connected) && rp.pending.is_some() {
            rep.count("reg3_before_reg2");
        }
        // abstract manager state x last event (for the visited-state table)
        let deadline_passed = rq.pending_timeout_at != 0 && t >= rq.pending_timeout_at;
        let h = crate::prng::hash_u64s(&[rq.pending.is_some() as u64, rq.target.is_some() as u64, rq.broadcast_pending as u64, (rq.active == 0) as u64, rq.probing as u64, deadline_passed as u64, rec.post.iter().filter(|l| l.connected).count() as u64, self.last_event]);
        self.abstract_states.insert(h);
        rep.distinct(h);
    }
}

/// Was the REG2 of this arm received on the link of the pending attempt (manager view before the arm)?
fn attempt_at_arm_before_close(_rec: &ArmRecord, rp: &super::stream::RegSnap, up_link: Option<u64>, idx_of: impl Fn(u64) -> Option<usize>) -> bool {
    rp.pending.is_some() && up_link.and_then(idx_of) == rp.pending
}
