//! C05 E1 lane: NAK frames (lists and ranges) in closed-loop shell runs with loss.
use std::time::Duration;

use srtla_core::config_snapshot::ConfigSnapshot;
use srtla_core::mode::SchedulingMode;

use super::monitors::NakMon;
use super::stream::{Faults, Monitor, StreamOpts, run_stream};
use crate::report::{Report, RunCfg};
use crate::runner::run_cases;

pub fn run(cfg: &RunCfg) -> Report {
    let cases = cfg.cases(24, 700);
    run_cases(cfg, 1, cases, Duration::from_secs(3600), |_c, rng, rep| {
        let sc = ConfigSnapshot { mode: if rng.chance(1, 2) { SchedulingMode::Classic } else { SchedulingMode::Enhanced }, quality_enabled: rng.chance(1, 2), stall_deselect: rng.chance(2, 3), stall_min_in_flight: *rng.pick(&[4, 32]), stall_ack_stale_ms: *rng.pick(&[1000, 3000]), conn_timeout_ms: 5000 };
        let opts = StreamOpts { n_links: 1 + rng.usize_below(4), cfg: sc, ticks: 5000, probing: rng.chance(1, 2), faults: if rng.chance(1, 2) { Faults::Paths } else { Faults::None }, retransmit_pct: 10, control_pct: 3, critical_windows: false, big_jumps: false, initial_windows: None, loss_permille: *rng.pick(&[20, 60, 150]), stall_min_in_flight_small: false, echo_fuzz: false, rate_pct: 60, short_sends: false };
        let mut m = NakMon::new();
        let mut mons: [&mut dyn Monitor; 1] = [&mut m];
        run_stream(opts, rng, &mut mons, rep);
    })
}
