//! C04 shell part: eligibility of the link every unique datagram is routed to.
use std::time::Duration;

use srtla_core::config_snapshot::ConfigSnapshot;
use srtla_core::mode::SchedulingMode;

use super::monitors::RouteMon;
use super::stream::{Faults, Monitor, StreamOpts, run_stream};
use crate::report::{Report, RunCfg};
use crate::runner::run_cases;

pub fn run(cfg: &RunCfg) -> Report {
    let cases = cfg.cases(48, 1500);
    run_cases(cfg, 1, cases, Duration::from_secs(3600), |_c, rng, rep| {
        let timeout = *rng.pick(&[1000u64, 2500, 5000, 5000, 15_000]);
        let sc = ConfigSnapshot {
            mode: if rng.chance(1, 2) { SchedulingMode::Classic } else { SchedulingMode::Enhanced },
            quality_enabled: rng.chance(2, 3),
            stall_deselect: rng.chance(5, 6),
            stall_min_in_flight: *rng.pick(&[1, 4, 4, 32]),
            stall_ack_stale_ms: *rng.pick(&[500, 1000, 3000]),
            conn_timeout_ms: timeout,
        };
        let opts = StreamOpts { n_links: 2 + rng.usize_below(3), cfg: sc, ticks: 6000, probing: rng.chance(1, 2), faults: if rng.chance(1, 2) { Faults::Heavy } else { Faults::Paths }, retransmit_pct: 10 + rng.below(20), control_pct: 5, critical_windows: true, big_jumps: rng.chance(1, 3), initial_windows: None, loss_permille: *rng.pick(&[0, 10, 50]), stall_min_in_flight_small: true, echo_fuzz: false, rate_pct: 100, short_sends: false };
        let mut m = RouteMon { timeout };
        let mut mons: [&mut dyn Monitor; 1] = [&mut m];
        run_stream(opts, rng, &mut mons, rep);
    })
}
