//! C10 — reference re-implementation of classic srtla_send (integers only), run in
//! lock-step with the real arms. Also hosts the NAK ownership model shared with C05.

use std::collections::{BTreeSet, HashMap};

use super::Sim;
use super::stream::{ArmKind, ArmRecord, Injected, LinkSnap, Monitor};
use crate::refcodec as rc;
use crate::report::Report;

/// Independent model of "which uplink carried the unique copy": slot = seq mod 16384,
/// overwritten by later unique routings in the same slot, valid for 5000 ms.
pub struct OwnerModel {
    slots: HashMap<u32, (u32, u64, u64)>, // slot -> (seq, conn_id, t)
}

impl Default for OwnerModel {
    fn default() -> Self {
        Self::new()
    }
}

impl OwnerModel {
    pub fn new() -> Self {
        OwnerModel { slots: HashMap::new() }
    }
    pub fn route(&mut self, seq: u32, conn_id: u64, t: u64) {
        self.slots.insert(seq % 16384, (seq, conn_id, t));
    }
    pub fn remembered(&self, seq: u32, now: u64) -> Option<u64> {
        match self.slots.get(&(seq % 16384)) {
            Some((s, id, t)) if *s == seq && now.saturating_sub(*t) <= 5000 => Some(*id),
            _ => None,
        }
    }
    pub fn seqs_of(&self, conn_id: u64) -> Vec<u32> {
        self.slots.values().filter(|v| v.1 == conn_id).map(|v| v.0).collect()
    }
    pub fn remove_link(&mut self, conn_id: u64) {
        self.slots.retain(|_, v| v.1 != conn_id);
    }
}

#[derive(Default, Clone)]
struct MLink {
    window: i32,
    registered: BTreeSet<i32>,
    queued: Vec<Option<u32>>,
}

pub struct ClassicRef {
    timeout: u64,
    links: HashMap<u64, MLink>,
    order: Vec<u64>,
    owners: OwnerModel,
    started: bool,
    armed: bool,
}

impl ClassicRef {
    pub fn new(timeout: u64) -> Self {
        ClassicRef { timeout, links: HashMap::new(), order: Vec::new(), owners: OwnerModel::new(), started: false, armed: false }
    }

    fn adopt(&mut self, sim: &Sim) {
        self.links.clear();
        self.order.clear();
        for c in sim.conns.iter() {
            self.order.push(c.conn_id);
            self.links.insert(c.conn_id, MLink { window: c.window, registered: c.packet_log.keys().copied().collect(), queued: vec![None; c.batch_sender.queued_count().max(0) as usize] });
        }
    }

    fn score(l: &MLink) -> i32 {
        let denom = (l.registered.len() as i64 + l.queued.len() as i64 + 1).min(i32::MAX as i64) as i32;
        l.window / denom
    }

    fn flush(l: &mut MLink) {
        for s in l.queued.drain(..).flatten() {
            l.registered.insert(s as i32);
        }
    }

    fn reset(l: &mut MLink) {
        l.window = 20_000;
        l.registered.clear();
        l.queued.clear();
    }
}

fn find<'a>(v: &'a [LinkSnap], id: u64) -> Option<&'a LinkSnap> {
    v.iter().find(|l| l.conn_id == id)
}

impl Monitor for ClassicRef {
    fn on_stream_start(&mut self, _sim: &Sim) {
        self.armed = true;
    }

    fn on_arm(&mut self, rec: &ArmRecord, inj: &[Injected], sim: &Sim, rep: &mut Report) {
        // The sender's NAK-attribution memory records every routing, also those before lock-step (re)starts: the
        // model's copy must too, or a sequence held by two links is attributed by the fallback scan in the model
        // and by the tracker in the sender (false alarm found by the thorough tier at seed 3, DESIGN.md changelog).
        if (!rec.established || !self.armed || !self.started)
            && let ArmKind::Client { inj: k } = &rec.kind
            && let Some(d) = inj.get(*k)
            && let (Some(u), _) = super::monitors::routing_of(rec, d.bytes.len())
            && let Some(s) = d.seq
        {
            self.owners.route(s, u, rec.t);
        }
        if !rec.established || !self.armed {
            return;
        }
        if !self.started {
            // (re)start lock-step from the real state at an arm that leaves every queue empty
            if rec.post.iter().all(|p| p.queued == 0) {
                self.adopt(sim);
                self.started = true;
                rep.count("c10.lockstep_started_or_resynced");
            }
            return;
        }
        let t = rec.t;
        match &rec.kind {
            ArmKind::Client { inj: k } => {
                let d = &inj[*k];
                rep.eval();
                // ---- reference select: first index maximising window / (in_flight + queued + 1) over usable links
                let mut best: Option<u64> = None;
                let mut best_score = -1;
                let mut n_usable = 0;
                let mut scores = Vec::new();
                for p in rec.pre.iter() {
                    let Some(m) = self.links.get(&p.conn_id) else { continue };
                    if !p.usable(t, self.timeout) {
                        scores.push(None);
                        continue;
                    }
                    n_usable += 1;
                    let s = Self::score(m);
                    scores.push(Some(s));
                    if s > best_score {
                        best_score = s;
                        best = Some(p.conn_id);
                    }
                }
                let (uniq, probes) = super::monitors::routing_of(rec, d.bytes.len());
                rep.count("c10.decisions");
                if n_usable >= 2 {
                    rep.count("c10.decisions_with_two_usable");
                    let distinct_scores: BTreeSet<i32> = scores.iter().flatten().copied().collect();
                    if distinct_scores.len() >= 2 {
                        rep.count("c10.decisions_with_distinct_scores");
                    }
                    if scores.iter().flatten().filter(|s| **s == best_score).count() >= 2 {
                        rep.count("c10.decisions_with_tie");
                    }
                    if d.is_data && (d.retransmit || rec.critical_open) {
                        rep.count("c10.decisions_retransmit_or_critical");
                    }
                    let mut f = crate::prng::Fnv::new();
                    for s in scores.iter() {
                        f.i64(s.map(|x| x as i64).unwrap_or(-7));
                    }
                    f.u64(d.is_data as u64 | (d.retransmit as u64) << 1 | (rec.critical_open as u64) << 2);
                    rep.distinct(f.finish());
                }
                if !probes.is_empty() {
                    rep.violation("C10.duplicate-with-guard-off", format!("arm#{}: classic mode, guard off, yet datagram #{k} was duplicated onto {probes:?}", rec.no));
                }
                if uniq != best {
                    let kind = if d.is_data && d.retransmit {
                        "retransmit-flagged-data"
                    } else if d.is_data && rec.critical_open {
                        "data-in-critical-window"
                    } else if d.is_data {
                        "data"
                    } else {
                        "control"
                    };
                    rep.violation(
                        &format!("C10.select.not-reference-argmax.{kind}"),
                        format!("arm#{} t={t}: {kind} datagram #{k} went to link {:?} (index {:?}), the reference picks {:?} (index {:?}); reference scores window/(in_flight+queued+1) per link index: {scores:?}; windows {:?}", rec.no, uniq.map(|x| format!("{x:x}")), uniq.and_then(|u| rec.pre.iter().position(|p| p.conn_id == u)), best.map(|x| format!("{x:x}")), best.and_then(|u| rec.pre.iter().position(|p| p.conn_id == u)), rec.pre.iter().map(|p| p.window).collect::<Vec<_>>()),
                    );
                }
                // follow the implementation's choice so that the rest of the history stays comparable
                if let Some(u) = uniq {
                    // whether this routing arm also flushed the link's queue is OBSERVED (queue length after the
                    // arm), not predicted from a batch threshold: the reference rules do not depend on batch sizes
                    let post_q = find(&rec.post, u).map(|p| p.queued.max(0) as usize);
                    if let Some(s) = d.seq {
                        self.owners.route(s, u, t);
                    }
                    if let Some(m) = self.links.get_mut(&u) {
                        m.queued.push(d.seq);
                        if post_q.is_some_and(|q| q < m.queued.len()) {
                            Self::flush(m);
                            if rec.broken.contains(&u) {
                                Self::reset(m);
                            }
                        }
                    }
                }
            }
            ArmKind::Flush => {
                for id in self.order.clone() {
                    if let Some(m) = self.links.get_mut(&id) {
                        Self::flush(m);
                    }
                }
            }
            ArmKind::Uplink { conn_id, bytes, .. } => {
                let arrival = *conn_id;
                match rc::ptype(bytes) {
                    Some(0x9100) => {
                        for s in rc::srtla_ack(bytes) {
                            let s = s as i32;
                            let holder = if self.links.get(&arrival).is_some_and(|m| m.registered.contains(&s)) {
                                Some(arrival)
                            } else {
                                self.order.iter().copied().find(|id| *id != arrival && self.links.get(id).is_some_and(|m| m.registered.contains(&s)))
                            };
                            if let Some(h) = holder {
                                let m = self.links.get_mut(&h).unwrap();
                                m.registered.remove(&s);
                                if (m.registered.len() as i64) * 1000 > m.window as i64 {
                                    m.window = (m.window + 29).min(60_000);
                                    rep.count("c10.ack.plus29");
                                }
                            }
                            for id in self.order.iter() {
                                let heard = *id == arrival || find(&rec.pre, *id).is_some_and(|p| p.last_received.is_some());
                                let connected = find(&rec.pre, *id).is_some_and(|p| p.connected);
                                if connected
                                    && heard
                                    && let Some(m) = self.links.get_mut(id)
                                {
                                    m.window = (m.window + 1).min(60_000);
                                }
                            }
                            rep.count("c10.srtla_ack_entries");
                        }
                    }
                    Some(0x8002) => {
                        if let Some(a) = rc::srt_ack(bytes) {
                            for m in self.links.values_mut() {
                                m.registered.retain(|s| *s > a as i32);
                            }
                            rep.count("c10.cumulative_acks");
                        }
                    }
                    Some(0x8003) => {
                        for s in rc::srt_nak(bytes) {
                            let charged = match self.owners.remembered(s, t).filter(|id| self.links.contains_key(id)) {
                                Some(owner) => Some(owner).filter(|o| self.links[o].registered.contains(&(s as i32))),
                                None => self.order.iter().copied().find(|id| self.links.get(id).is_some_and(|m| m.registered.contains(&(s as i32)))),
                            };
                            if let Some(c) = charged {
                                let m = self.links.get_mut(&c).unwrap();
                                m.registered.remove(&(s as i32));
                                m.window = (m.window - 100).max(1000);
                                rep.count("c10.nak_charged");
                            }
                        }
                    }
                    Some(0x9202) => {
                        if let Some(m) = self.links.get_mut(&arrival) {
                            m.registered.clear();
                            m.queued.clear();
                        }
                    }
                    _ => {}
                }
            }
            ArmKind::Housekeeping { .. } => {
                rep.count("c10.housekeeping_arms");
                for post in rec.post.iter() {
                    let Some(pre) = find(&rec.pre, post.conn_id) else { continue };
                    let torn = (pre.connected && !post.connected) || pre.sock != post.sock || pre.reconnect_attempt_ms != post.reconnect_attempt_ms;
                    if torn && let Some(m) = self.links.get_mut(&post.conn_id) {
                        Self::reset(m);
                    }
                }
            }
        }
        // a send failure inside a routing / flush arm tears the link down (mark_for_recovery)
        for post in rec.post.iter() {
            if let Some(pre) = find(&rec.pre, post.conn_id)
                && pre.connected
                && !post.connected
                && rec.broken.contains(&post.conn_id)
                && let Some(m) = self.links.get_mut(&post.conn_id)
            {
                Self::reset(m);
            }
        }
        // ---- compare the whole vector after every arm ---------------------------------------------------
        let mut mismatch = false;
        for post in rec.post.iter() {
            let Some(m) = self.links.get(&post.conn_id) else { continue };
            rep.eval();
            if m.window == 1000 {
                rep.count("c10.window_at_floor");
            }
            if m.window == 60_000 {
                rep.count("c10.window_at_ceiling");
            }
            if m.window != post.window {
                rep.violation("C10.window.differs-from-reference", format!("arm#{} t={t} ({:?}): link {:x} window {} reference {}", rec.no, rec.kind.code(), post.conn_id, post.window, m.window));
                mismatch = true;
            }
            if m.registered.len() as i32 != post.in_flight || m.queued.len() as i32 != post.queued {
                rep.violation("C10.inflight.differs-from-reference", format!("arm#{} t={t} (kind {}): link {:x} in-flight {} queued {} reference {} / {}", rec.no, rec.kind.code(), post.conn_id, post.in_flight, post.queued, m.registered.len(), m.queued.len()));
                mismatch = true;
            }
        }
        if mismatch {
            self.started = false;
        }
    }
}
