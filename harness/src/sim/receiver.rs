//! Sim receiver: a small model of `srtla_rec` plus an SRT receiver, used when a
//! cooperative peer is wanted. It consumes the frames read from the receiver-side
//! socket and produces reply frames (REG2 / REG3 / REG_NGP / REG_ERR, keepalive
//! echoes, SRTLA ACKs, SRT cumulative ACKs and NAKs) with a virtual delivery time.

use std::collections::{BTreeSet, HashMap, VecDeque};
use std::net::IpAddr;

use crate::prng::Rng;
use crate::refcodec as rc;

#[derive(Clone, Copy, Debug, PartialEq, Eq)]
pub enum Path {
    /// both directions deliver
    Healthy,
    /// nothing from this link reaches the receiver and nothing comes back
    BlackHole,
    /// the receiver gets everything but none of its replies reach the sender
    NoReturn,
    /// only handshake replies (REG2 / REG3 / REG_NGP / REG_ERR) are lost
    NoHandshakeReplies,
}

#[derive(Clone, Debug)]
pub struct Reply {
    pub due: u64,
    pub ip: IpAddr,
    pub bytes: Vec<u8>,
    pub kind: &'static str,
}

pub struct SimReceiver {
    pub group: Option<[u8; 256]>,
    pub members: BTreeSet<IpAddr>,
    pub path: HashMap<IpAddr, Path>,
    pub pending: VecDeque<Reply>,
    /// data sequence numbers received since the last SRTLA ACK, per link
    unacked: HashMap<IpAddr, Vec<u32>>,
    /// SRT receive buffer model
    pub got: BTreeSet<u32>,
    pub next_expected: Option<u32>,
    naked: BTreeSet<u32>,
    since_srt_ack: u32,
    pub last_data_ip: Option<IpAddr>,
    pub srtla_ack_every: usize,
    pub srt_ack_every: u32,
    pub max_delay: u64,
    /// data loss (per mille) applied above the socket on healthy paths
    pub loss_permille: u64,
    pub forget_group_answers_err: bool,
    pub stats_data: u64,
    pub stats_lost: u64,
}

impl Default for SimReceiver {
    fn default() -> Self {
        Self::new()
    }
}

impl SimReceiver {
    pub fn new() -> Self {
        SimReceiver {
            group: None,
            members: BTreeSet::new(),
            path: HashMap::new(),
            pending: VecDeque::new(),
            unacked: HashMap::new(),
            got: BTreeSet::new(),
            next_expected: None,
            naked: BTreeSet::new(),
            since_srt_ack: 0,
            last_data_ip: None,
            srtla_ack_every: 10,
            srt_ack_every: 16,
            max_delay: 40,
            loss_permille: 0,
            forget_group_answers_err: false,
            stats_data: 0,
            stats_lost: 0,
        }
    }

    pub fn path_of(&self, ip: &IpAddr) -> Path {
        self.path.get(ip).copied().unwrap_or(Path::Healthy)
    }

    pub fn set_path(&mut self, ip: IpAddr, p: Path) {
        self.path.insert(ip, p);
    }

    /// The receiver "restarts": it forgets the group and every member.
    pub fn forget_group(&mut self) {
        self.group = None;
        self.members.clear();
        self.unacked.clear();
    }

    fn push(&mut self, rng: &mut Rng, now: u64, ip: IpAddr, bytes: Vec<u8>, kind: &'static str, handshake: bool) {
        match self.path_of(&ip) {
            Path::BlackHole | Path::NoReturn => return,
            Path::NoHandshakeReplies if handshake => return,
            _ => {}
        }
        let due = now + if self.max_delay == 0 { 0 } else { rng.below(self.max_delay + 1) };
        self.pending.push_back(Reply { due, ip, bytes, kind });
    }

    /// Feed one frame that arrived from source address `ip` at virtual time `now`.
    pub fn on_frame(&mut self, rng: &mut Rng, now: u64, ip: IpAddr, b: &[u8]) {
        if self.path_of(&ip) == Path::BlackHole {
            return;
        }
        let Some(t) = rc::ptype(b) else { return };
        match t {
            0x9200 if b.len() == 258 => {
                // REG1: create the group; the receiver fills the second half of the id
                let mut id = [0u8; 256];
                id.copy_from_slice(&b[2..258]);
                for (k, x) in id[128..].iter_mut().enumerate() {
                    *x = (k as u8).wrapping_mul(7) ^ 0x5a;
                }
                self.group = Some(id);
                self.members.clear();
                self.push(rng, now, ip, rc::build_reg(0x9201, &id), "REG2", true);
            }
            0x9201 if b.len() == 258 => {
                let known = self.group.is_some_and(|g| g[..] == b[2..258]);
                if known {
                    self.members.insert(ip);
                    self.push(rng, now, ip, vec![0x92, 0x02], "REG3", true);
                } else if self.forget_group_answers_err {
                    self.push(rng, now, ip, vec![0x92, 0x10], "REG_ERR", true);
                } else {
                    self.push(rng, now, ip, vec![0x92, 0x11], "REG_NGP", true);
                }
            }
            0x9000 => {
                if self.members.contains(&ip) {
                    self.push(rng, now, ip, b.to_vec(), "KA_ECHO", false);
                }
            }
            _ if b[0] & 0x80 == 0 && b.len() >= 4 => {
                // SRT data
                if !self.members.contains(&ip) {
                    return;
                }
                self.stats_data += 1;
                if self.loss_permille > 0 && rng.below(1000) < self.loss_permille {
                    self.stats_lost += 1;
                    return;
                }
                let seq = u32::from_be_bytes([b[0], b[1], b[2], b[3]]);
                self.last_data_ip = Some(ip);
                let v = self.unacked.entry(ip).or_default();
                v.push(seq);
                if v.len() >= self.srtla_ack_every {
                    let list: Vec<u32> = std::mem::take(v);
                    self.push(rng, now, ip, rc::build_srtla_ack(&list), "SRTLA_ACK", false);
                }
                // SRT receive buffer
                self.got.insert(seq);
                let ne = self.next_expected.get_or_insert(seq);
                let mut naks: Vec<(u32, Option<u32>)> = Vec::new();
                if seq > *ne && seq - *ne < 2000 {
                    // gap: NAK what is missing and not yet NAKed
                    let mut s = *ne;
                    while s < seq {
                        if !self.got.contains(&s) && self.naked.insert(s) {
                            // merge into ranges
                            match naks.last_mut() {
                                Some((a, Some(e))) if *e + 1 == s => *e = s,
                                Some((a, None)) if *a + 1 == s => {
                                    let a0 = *a;
                                    *naks.last_mut().unwrap() = (a0, Some(s));
                                }
                                _ => naks.push((s, None)),
                            }
                        }
                        s += 1;
                    }
                }
                while self.got.contains(ne) {
                    self.got.remove(ne);
                    *ne += 1;
                }
                let ne_val = *ne;
                self.since_srt_ack += 1;
                let back_ip = ip;
                if !naks.is_empty() {
                    self.push(rng, now, back_ip, rc::build_srt_nak(&naks), "SRT_NAK", false);
                }
                if self.since_srt_ack >= self.srt_ack_every {
                    self.since_srt_ack = 0;
                    self.push(rng, now, back_ip, rc::build_srt_ack(ne_val, 44, 0), "SRT_ACK", false);
                }
                if self.got.len() > 4000 {
                    // give up on old holes
                    let first = *self.got.iter().next().unwrap();
                    self.next_expected = Some(first);
                }
            }
            _ => {}
        }
    }

    /// Replies whose delivery time has come, in due order (stable for equal times).
    pub fn take_due(&mut self, now: u64) -> Vec<Reply> {
        let mut due: Vec<Reply> = Vec::new();
        let mut rest = VecDeque::new();
        while let Some(r) = self.pending.pop_front() {
            if r.due <= now {
                due.push(r);
            } else {
                rest.push_back(r);
            }
        }
        self.pending = rest;
        due.sort_by_key(|r| r.due);
        due
    }
}
