//! E1 — the shell simulator: the environment of `run_sender_with_config` re-created
//! around the REAL arm functions (`handle_srt_packet`, `handle_uplink_packet`,
//! `flush_all_batches`, `handle_housekeeping`, `apply_connection_changes`) on
//! loopback sockets, under the thread-local virtual clock. Arms are invoked one at a
//! time in an order the driver chooses — exactly the interleavings the real
//! `select!` loop can produce, because an arm never yields to another arm.

pub mod monitors;
pub mod receiver;
pub mod recovery;
pub mod reload;
pub mod regmon;
pub mod stream;
pub mod c04_shell;
pub mod c05_shell;
pub mod c06_shell;
pub mod classic_ref;

use std::collections::HashMap;
use std::net::{IpAddr, Ipv4Addr, SocketAddr};
use std::sync::Arc;
use std::sync::atomic::{AtomicBool, Ordering};

use smallvec::SmallVec;
use srtla_core::config_snapshot::ConfigSnapshot;
use srtla_core::connection::SrtlaConnection;
use srtla_core::priority::CriticalWindow;
use srtla_core::registration::SrtlaRegistrationManager;
use srtla_core::selection::classifier::WeakLinkFilter;
use srtla_core::selection::link_cc::{CcState, LinkCcController};
use srtla_send::net::UplinkBinder;
use srtla_send::sender::verif_hooks as vh;
use srtla_send::sender::{ConnIoMap, SequenceTracker, apply_connection_changes, create_connections_from_ips};
use tokio::net::UdpSocket;
use tokio::sync::mpsc::{UnboundedReceiver, UnboundedSender};

use crate::rt;

/// Binder that behaves like `SourceIpBinder` but can be told to fail (reconnect
/// failure / back-off path).
pub struct TestBinder {
    pub fail: AtomicBool,
}

impl UplinkBinder for TestBinder {
    fn bind(&self, sock: &socket2::Socket, ip: IpAddr) -> anyhow::Result<()> {
        if self.fail.load(Ordering::Relaxed) {
            anyhow::bail!("injected binder failure");
        }
        let addr = SocketAddr::new(ip, 0);
        sock.bind(&addr.into()).map_err(|e| anyhow::anyhow!("bind: {e}"))
    }
}

pub struct Sim {
    pub conns: SmallVec<SrtlaConnection, 4>,
    pub conn_io: ConnIoMap,
    pub reg: SrtlaRegistrationManager,
    pub listener: UdpSocket,
    pub listener_addr: SocketAddr,
    pub client: std::net::UdpSocket,
    pub client_addr: SocketAddr,
    pub rx: std::net::UdpSocket,
    pub rx_addr: SocketAddr,
    pub instant_tx: vh::InstantForwarder,
    pub instant_rx: UnboundedReceiver<(SocketAddr, SmallVec<u8, 64>)>,
    pub packet_tx: UnboundedSender<vh::UplinkPacket>,
    pub packet_rx: UnboundedReceiver<vh::UplinkPacket>,
    pub readers: HashMap<vh::ConnectionId, vh::ReaderHandle>,
    pub seq_tracker: SequenceTracker,
    pub last_selected_idx: Option<usize>,
    pub last_client_addr: Option<SocketAddr>,
    pub all_failed_at: Option<u64>,
    pub cfg: ConfigSnapshot,
    pub critical: CriticalWindow,
    pub weak_filter: WeakLinkFilter,
    pub link_cc: LinkCcController,
    pub binder: Arc<TestBinder>,
    pub binder_dyn: Arc<dyn UplinkBinder>,
    pub now: u64,
    pub recv_buf: Vec<u8>,
    pub pending_ips: Option<SmallVec<IpAddr, 4>>,
    pub io_errors: Vec<String>,
    pub defer_apply: bool,
    /// short-send lane: receiver ends of the AF_UNIX datagram socket pairs standing in for uplinks
    pub unix_peers: Vec<(IpAddr, std::os::unix::net::UnixDatagram)>,
    pub unix_queue: Arc<std::sync::Mutex<Vec<(IpAddr, Vec<u8>)>>>,
    pub unix_tasks: Vec<tokio::task::JoinHandle<()>>,
}

pub fn link_ip(i: usize) -> IpAddr {
    IpAddr::V4(Ipv4Addr::new(127, 0, 0, 10 + i as u8))
}

fn big_rcvbuf(sock: &std::net::UdpSocket) {
    use std::os::fd::AsRawFd;
    let fd = sock.as_raw_fd();
    let sz: libc::c_int = 32 * 1024 * 1024;
    // SAFETY: plain setsockopt on a live fd with a correctly sized int argument.
    unsafe {
        let p = &sz as *const libc::c_int as *const libc::c_void;
        if libc::setsockopt(fd, libc::SOL_SOCKET, libc::SO_RCVBUFFORCE, p, 4) != 0 {
            let _ = libc::setsockopt(fd, libc::SOL_SOCKET, libc::SO_RCVBUF, p, 4);
        }
    }
}

/// Global count of UDP receive-buffer drops on this host (an increase during a run
/// makes delivery verdicts inconclusive, never violations).
pub fn udp_rcvbuf_errors() -> u64 {
    let Ok(t) = std::fs::read_to_string("/proc/net/snmp") else { return 0 };
    let mut lines = t.lines().filter(|l| l.starts_with("Udp:"));
    let (Some(h), Some(v)) = (lines.next(), lines.next()) else { return 0 };
    let idx = h.split_whitespace().position(|x| x == "RcvbufErrors");
    idx.and_then(|i| v.split_whitespace().nth(i)).and_then(|x| x.parse().ok()).unwrap_or(0)
}

impl Sim {
    /// Build the environment: `n` uplinks created by the production
    /// `create_connections_from_ips` (source addresses 127.0.0.10+i, all connected to
    /// one receiver-side socket on 127.0.0.1; the receiver side tells links apart by
    /// source address, as a real receiver does).
    pub fn new(ips: &[IpAddr], cfg: ConfigSnapshot, t0: u64) -> Sim {
        rt::set_now(t0);
        let rx = std::net::UdpSocket::bind("127.0.0.1:0").expect("bind rx");
        rx.set_nonblocking(true).unwrap();
        big_rcvbuf(&rx);
        let rx_addr = rx.local_addr().unwrap();
        let client = std::net::UdpSocket::bind("127.0.0.1:0").expect("bind client");
        client.set_nonblocking(true).unwrap();
        big_rcvbuf(&client);
        let client_addr = client.local_addr().unwrap();
        let binder = Arc::new(TestBinder { fail: AtomicBool::new(false) });
        let binder_dyn: Arc<dyn UplinkBinder> = binder.clone();
        let mut conn_io: ConnIoMap = HashMap::new();
        let (listener, conns) = rt::block_on(async {
            let l = UdpSocket::bind("127.0.0.1:0").await.expect("bind listener");
            let c = create_connections_from_ips(ips, "127.0.0.1", rx_addr.port(), &binder_dyn, &mut conn_io).await;
            (l, c)
        });
        let listener_addr = listener.local_addr().unwrap();
        let (instant_tx, instant_rx) = tokio::sync::mpsc::unbounded_channel();
        let (packet_tx, packet_rx) = vh::create_uplink_channel();
        Sim {
            conns,
            conn_io,
            reg: SrtlaRegistrationManager::new(),
            listener,
            listener_addr,
            client,
            client_addr,
            rx,
            rx_addr,
            instant_tx,
            instant_rx,
            packet_tx,
            packet_rx,
            readers: HashMap::new(),
            seq_tracker: SequenceTracker::new(),
            last_selected_idx: None,
            last_client_addr: None,
            all_failed_at: None,
            cfg,
            critical: CriticalWindow::new(),
            weak_filter: WeakLinkFilter::new(),
            link_cc: LinkCcController::new(),
            binder,
            binder_dyn,
            now: t0,
            recv_buf: vec![0u8; 1500],
            pending_ips: None,
            io_errors: Vec::new(),
            defer_apply: false,
            unix_peers: Vec::new(),
            unix_queue: Arc::new(std::sync::Mutex::new(Vec::new())),
            unix_tasks: Vec::new(),
        }
    }

    /// Short-send lane: replace every uplink's UDP socket by one end of an AF_UNIX SOCK_DGRAM socket pair
    /// whose send buffer is the kernel minimum, wrapped in the real `BatchUdpSocket`. `sendmmsg` then
    /// accepts only a couple of datagrams per call (the rest: EAGAIN), which exercises the short-send loop
    /// of `send_all_datagrams` that loopback UDP never reaches. A drainer task per link (on this thread's
    /// runtime, so it runs exactly while an arm awaits writability) empties the peer end in order.
    pub fn use_short_send_sockets(&mut self) -> bool {
        use socket2::{Domain, Socket, Type};
        let mut ok = true;
        for c in self.conns.iter() {
            let Some(io) = self.conn_io.get_mut(&c.conn_id) else { continue };
            let Ok((a, b)) = Socket::pair(Domain::UNIX, Type::DGRAM, None) else {
                ok = false;
                continue;
            };
            let _ = a.set_nonblocking(true);
            let _ = b.set_nonblocking(true);
            let _ = a.set_send_buffer_size(1);
            let ip = c.local_ip;
            let std_b: std::os::unix::net::UnixDatagram = b.into();
            let Ok(dup) = std_b.try_clone() else {
                ok = false;
                continue;
            };
            let q = self.unix_queue.clone();
            let res = rt::block_on(async {
                let sock = srtla_send::net::BatchUdpSocket::new(a)?;
                let ud = tokio::net::UnixDatagram::from_std(std_b)?;
                let h = tokio::spawn(async move {
                    let mut buf = vec![0u8; 4096];
                    while let Ok(n) = ud.recv(&mut buf).await {
                        q.lock().unwrap().push((ip, buf[..n].to_vec()));
                    }
                });
                Ok::<_, std::io::Error>((sock, h))
            });
            match res {
                Ok((sock, h)) => {
                    io.socket = Arc::new(sock);
                    self.unix_peers.push((ip, dup));
                    self.unix_tasks.push(h);
                }
                Err(_) => ok = false,
            }
        }
        ok
    }

    pub fn set_now(&mut self, t: u64) {
        self.now = t;
        rt::set_now(t);
    }

    pub fn advance(&mut self, dt: u64) {
        self.set_now(self.now + dt);
    }

    /// What `run_sender_with_config` does before its loop: start probing and send the
    /// probes, then one initial housekeeping pass.
    pub fn startup(&mut self, with_probing: bool) {
        if with_probing {
            let now = self.now;
            let probes = self.reg.start_probing(&mut self.conns, now);
            let conns = &self.conns;
            let io = &self.conn_io;
            rt::block_on(async {
                for (idx, pkt) in probes {
                    if let Some(c) = conns.get(idx)
                        && let Some(io) = io.get(&c.conn_id)
                    {
                        let _ = io.socket.send(&pkt).await;
                    }
                }
            });
        }
        let _ = self.arm_housekeeping();
    }

    /// Client-datagram arm: the sim SRT client sends `payload` to the local SRT port;
    /// the real `recv_from` result is handed to the real `handle_srt_packet`.
    pub fn arm_client(&mut self, payload: &[u8]) -> bool {
        if let Err(e) = self.client.send_to(payload, self.listener_addr) {
            self.io_errors.push(format!("client send: {e}"));
            return false;
        }
        let Sim { listener, recv_buf, conns, conn_io, last_selected_idx, seq_tracker, last_client_addr, reg, cfg, critical, .. } = self;
        let ok = rt::block_on(async {
            let res = match tokio::time::timeout(std::time::Duration::from_secs(2), listener.recv_from(recv_buf)).await {
                Ok(r) => r,
                Err(_) => return false,
            };
            vh::handle_srt_packet(res, recv_buf, conns, conn_io, last_selected_idx, seq_tracker, last_client_addr, reg.has_connected, cfg, critical).await;
            true
        });
        if !ok {
            self.io_errors.push("listener recv timed out (2 s real time)".into());
        }
        self.pump_instant();
        ok
    }

    /// Uplink-datagram arm: what a reader task would have produced for `bytes`
    /// received on the link with id `conn_id`.
    pub fn arm_uplink(&mut self, conn_id: u64, bytes: &[u8]) {
        let pkt = vh::UplinkPacket { conn_id, bytes: SmallVec::from_slice_copy(bytes) };
        let Sim { conns, conn_io, reg, instant_tx, last_client_addr, listener, seq_tracker, cfg, .. } = self;
        rt::block_on(async {
            vh::handle_uplink_packet(pkt, conns, conn_io, reg, instant_tx, *last_client_addr, listener, seq_tracker, cfg).await;
        });
        self.pump_instant();
    }

    /// 15 ms batch flush arm.
    pub fn arm_flush(&mut self) {
        let Sim { conns, conn_io, .. } = self;
        rt::block_on(async {
            vh::flush_all_batches(conns, conn_io).await;
        });
    }

    /// Housekeeping arm: the same statement sequence as the loop's housekeeping
    /// branch (housekeeping -> classify -> tick_all -> stamp -> pending reload).
    /// Stats publication and the status log are left out (no effect on links).
    pub fn arm_housekeeping(&mut self) -> Result<(), String> {
        let now = self.now;
        let classic = self.cfg.mode.is_classic();
        let Sim { conns, conn_io, reg, all_failed_at, readers, packet_tx, .. } = self;
        let r = rt::block_on(async { vh::handle_housekeeping(conns, conn_io, reg, classic, now, all_failed_at, readers, packet_tx).await });
        let classification = self.weak_filter.classify(&self.conns);
        let snaps = self.link_cc.tick_all(&self.conns, now);
        for conn in self.conns.iter_mut() {
            conn.weak = classification.per_link.iter().find(|e| e.conn_id == conn.conn_id).map(|e| e.weak).unwrap_or(false);
            let s = snaps.get(&conn.conn_id);
            conn.cc_backing_off = s.map(|s| s.state == CcState::BackingOff).unwrap_or(false);
            conn.cc_target_bps = s.map(|s| s.target_bps).unwrap_or(0);
            conn.loss_degraded = s.map(|s| s.loss_degraded).unwrap_or(false);
        }
        if !self.defer_apply {
            self.apply_pending();
        }
        r.map_err(|e| e.to_string())
    }

    /// The tail of the housekeeping branch: apply a queued IP-list change through the
    /// production `apply_connection_changes`. Returns whether a change was applied.
    pub fn apply_pending(&mut self) -> bool {
        if let Some(ips) = self.pending_ips.take() {
            let port = self.rx_addr.port();
            let Sim { conns, conn_io, last_selected_idx, seq_tracker, binder_dyn, .. } = self;
            rt::block_on(async {
                apply_connection_changes(conns, conn_io, &ips, "127.0.0.1", port, last_selected_idx, seq_tracker, binder_dyn).await;
            });
            return true;
        }
        false
    }

    /// The SIGHUP branch: evaluate the ips file with the production guard and queue the
    /// change for the next housekeeping arm (or refuse it and touch nothing).
    pub fn arm_sighup(&mut self, ips_file: &str) -> vh::IpReload {
        let r = vh::analyze_ip_reload(ips_file);
        if let vh::IpReload::Apply { ips, .. } = &r {
            self.pending_ips = Some(ips.clone());
        }
        r
    }

    fn pump_instant(&mut self) {
        // what the spawned instant-forwarding task does
        while let Ok((addr, pkt)) = self.instant_rx.try_recv() {
            let l = &self.listener;
            rt::block_on(async {
                let _ = l.send_to(&pkt, addr).await;
            });
        }
    }

    /// Everything that arrived on the receiver-side socket since the last call, in
    /// arrival order, with the source address (identifies the uplink).
    pub fn drain_rx(&mut self) -> Vec<(SocketAddr, Vec<u8>)> {
        let mut out = Vec::new();
        let mut buf = [0u8; 4096];
        if !self.unix_peers.is_empty() {
            // what the drainer tasks read while the arm was running, then what is still in the socket buffers
            for (ip, b) in self.unix_queue.lock().unwrap().drain(..) {
                out.push((SocketAddr::new(ip, 0), b));
            }
            for (ip, s) in self.unix_peers.iter() {
                while let Ok(n) = s.recv(&mut buf) {
                    out.push((SocketAddr::new(*ip, 0), buf[..n].to_vec()));
                }
            }
        }
        loop {
            match self.rx.recv_from(&mut buf) {
                Ok((n, src)) => out.push((src, buf[..n].to_vec())),
                Err(e) if e.kind() == std::io::ErrorKind::WouldBlock => break,
                Err(e) => {
                    self.io_errors.push(format!("rx recv: {e}"));
                    break;
                }
            }
        }
        out
    }

    /// Everything the sender relayed to the sim SRT client since the last call.
    pub fn drain_client(&mut self) -> Vec<Vec<u8>> {
        let mut out = Vec::new();
        let mut buf = [0u8; 2048];
        loop {
            match self.client.recv_from(&mut buf) {
                Ok((n, _)) => out.push(buf[..n].to_vec()),
                Err(e) if e.kind() == std::io::ErrorKind::WouldBlock => break,
                Err(e) => {
                    self.io_errors.push(format!("client recv: {e}"));
                    break;
                }
            }
        }
        out
    }

    /// Link index (position in `conns`) for a source address seen at the receiver.
    pub fn link_of_src(&self, src: &SocketAddr) -> Option<usize> {
        self.conns.iter().position(|c| c.local_ip == src.ip())
    }

    /// Deterministic, loss-free send-error injection: shut down the write half of
    /// the uplink's own socket, so the very next send on it fails with EPIPE.
    pub fn break_socket(&mut self, idx: usize) -> bool {
        if let Some(c) = self.conns.get(idx)
            && let Some(io) = self.conn_io.get(&c.conn_id)
        {
            return io.socket.get_ref().shutdown(std::net::Shutdown::Write).is_ok();
        }
        false
    }

    pub fn conn_id(&self, idx: usize) -> u64 {
        self.conns[idx].conn_id
    }

    pub fn socket_ptr(&self, idx: usize) -> usize {
        self.conns.get(idx).and_then(|c| self.conn_io.get(&c.conn_id)).map(|io| Arc::as_ptr(&io.socket) as usize).unwrap_or(0)
    }
}

impl Drop for Sim {
    fn drop(&mut self) {
        for (_, r) in self.readers.drain() {
            r.handle.abort();
        }
        for h in self.unix_tasks.drain(..) {
            h.abort();
        }
        // let the runtime reap the aborted reader tasks (they hold socket Arcs)
        rt::block_on(async {
            tokio::task::yield_now().await;
        });
    }
}
