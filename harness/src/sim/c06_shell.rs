//! C06 shell part: housekeeping arms in classic / enhanced mode (window recovery decision).
use std::time::Duration;

use srtla_core::config_snapshot::ConfigSnapshot;
use srtla_core::mode::SchedulingMode;

use super::monitors::ClassicHkMon;
use super::stream::{Faults, Monitor, StreamOpts, run_stream};
use crate::report::{Report, RunCfg};
use crate::runner::run_cases;

pub fn run(cfg: &RunCfg) -> Report {
    let cases = cfg.cases(16, 400);
    run_cases(cfg, 1, cases, Duration::from_secs(3600), |c, rng, rep| {
        let classic = c % 2 == 0;
        let sc = ConfigSnapshot { mode: if classic { SchedulingMode::Classic } else { SchedulingMode::Enhanced }, quality_enabled: rng.chance(1, 2), stall_deselect: rng.chance(1, 2), ..ConfigSnapshot::default() };
        let opts = StreamOpts { n_links: 1 + rng.usize_below(3), cfg: sc, ticks: 4000, probing: rng.chance(1, 2), faults: Faults::Paths, retransmit_pct: 5, control_pct: 3, critical_windows: false, big_jumps: false, initial_windows: None, loss_permille: 30, stall_min_in_flight_small: false, echo_fuzz: false, rate_pct: 100, short_sends: false };
        let mut m = ClassicHkMon { classic };
        let mut mons: [&mut dyn Monitor; 1] = [&mut m];
        run_stream(opts, rng, &mut mons, rep);
    })
}
