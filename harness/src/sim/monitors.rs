//! Monitors over E1 arm records: delivery (C01), routing eligibility (C04),
//! classic housekeeping windows (C06 shell part), keepalives / RTT sampling (C14).

use std::collections::{HashMap, VecDeque};

use srtla_core::connection::batch_send::BatchRegime;

use super::Sim;
use super::stream::{ArmKind, ArmRecord, Injected, LinkSnap, Monitor, RxClass, classify_rx};
use crate::refcodec as rc;
use crate::report::Report;

/// C01: "held for at most one batch (32 datagrams)". The per-regime thresholds below that bound are an
/// implementation choice the monitors must not assume (false alarm on a benign regime retune, DESIGN.md 9.7).
pub const MAX_BATCH: i32 = 32;

fn find<'a>(v: &'a [LinkSnap], id: u64) -> Option<&'a LinkSnap> {
    v.iter().find(|l| l.conn_id == id)
}

/// Which links received a copy of the datagram routed in this client arm:
/// (unique-copy link, probe-copy links), by conn_id.
pub fn routing_of(rec: &ArmRecord, payload_len: usize) -> (Option<u64>, Vec<u64>) {
    let mut grew: Vec<u64> = Vec::new();
    for p in rec.post.iter() {
        if let Some(q) = find(&rec.pre, p.conn_id)
            && p.bytes_total.wrapping_sub(q.bytes_total) == payload_len as u64
            && payload_len > 0
        {
            grew.push(p.conn_id);
        }
    }
    let uniq = rec.last_selected_post.and_then(|i| rec.post.get(i)).map(|l| l.conn_id).filter(|id| grew.contains(id));
    let probes = grew.into_iter().filter(|id| Some(*id) != uniq).collect();
    (uniq, probes)
}

// =====================================================================================
// C01 — delivery monitor
// =====================================================================================

#[derive(Default, Clone)]
struct InjState {
    obligation: bool,
    unique_link: Option<u64>,
    probe_links: Vec<u64>,
    unique_arrived: bool,
    exempt: bool,
    unexplained_at: Option<usize>,
}

pub struct DeliveryMon {
    timeout: u64,
    st: Vec<InjState>,
    by_bytes: HashMap<Vec<u8>, usize>,
    indexed: usize,
    pending: HashMap<u64, VecDeque<usize>>,
    last_arrived: HashMap<u64, usize>,
    last_dup_at: HashMap<u64, u64>,
    routed_data: u64,
    links_with_data: std::collections::HashSet<u64>,
    /// (datagram, link) pairs that left a queue without having been seen yet and without an
    /// observed reset: resolved if the frame shows up later (harness timing), reported at the end otherwise
    popped_unexplained: std::collections::HashSet<(usize, u64)>,
}

impl DeliveryMon {
    pub fn new(timeout: u64) -> Self {
        DeliveryMon { timeout, st: Vec::new(), by_bytes: HashMap::new(), indexed: 0, pending: HashMap::new(), last_arrived: HashMap::new(), last_dup_at: HashMap::new(), routed_data: 0, links_with_data: Default::default(), popped_unexplained: Default::default() }
    }

    /// C19 runs: the link was removed by an IP-list reload; what was still queued on it is gone
    /// (reload is outside C01's quantifier).
    pub fn link_removed(&mut self, conn_id: u64) {
        if let Some(q) = self.pending.remove(&conn_id) {
            for k in q {
                self.st[k].exempt = true;
            }
        }
    }

    fn index(&mut self, inj: &[Injected]) {
        while self.indexed < inj.len() {
            self.by_bytes.insert(inj[self.indexed].bytes.clone(), self.indexed);
            self.st.push(InjState::default());
            self.indexed += 1;
        }
    }
}

impl Monitor for DeliveryMon {
    fn on_arm(&mut self, rec: &ArmRecord, inj: &[Injected], _sim: &Sim, rep: &mut Report) {
        self.index(inj);
        let t = rec.t;
        // ---- 1. routing bookkeeping ---------------------------------------------------
        if let ArmKind::Client { inj: k } = rec.kind {
            let d = &inj[k];
            let (uniq, probes) = routing_of(rec, d.bytes.len());
            let any_usable = rec.pre.iter().any(|l| l.usable(t, self.timeout));
            rep.eval();
            let s = &mut self.st[k];
            s.obligation = rec.established && any_usable;
            s.unique_link = uniq;
            s.probe_links = probes.clone();
            if rec.established {
                rep.count("c01.accepted_after_establishment");
                if uniq.is_none() {
                    if any_usable {
                        rep.violation("C01.dropped-although-usable-link", format!("arm#{} t={t}: client datagram #{k} ({} B, seq {:?}) was not queued on any uplink although a usable uplink existed: {:?}", rec.no, d.bytes.len(), d.seq, rec.pre.iter().map(|l| (l.connected, l.schedulable, l.gated, l.last_received.map(|x| t - x))).collect::<Vec<_>>()));
                    } else {
                        rep.count("c01.dropped_no_usable_link");
                    }
                }
                if !d.is_data && !probes.is_empty() {
                    rep.violation("C01.dup.control-packet-duplicated", format!("arm#{}: control datagram #{k} was also queued on links {probes:?}", rec.no));
                }
                for p in probes.iter() {
                    let post = find(&rec.post, *p);
                    let pre = find(&rec.pre, *p);
                    let gated = post.is_some_and(|l| l.gated) || (pre.is_some_and(|l| l.connected) && post.is_some_and(|l| !l.connected));
                    let connected = pre.is_some_and(|l| l.connected);
                    if !gated || !connected {
                        rep.violation("C01.dup.on-ungated-link", format!("arm#{} t={t}: datagram #{k} (seq {:?}) was duplicated onto link {p:x} which is not stall-gated/connected (post {:?})", rec.no, d.seq, post.map(|l| (l.connected, l.gated, l.latched))));
                    }
                    if let Some(prev) = self.last_dup_at.get(p)
                        && self.routed_data - prev < 100
                    {
                        rep.violation("C01.dup.more-than-one-per-100", format!("arm#{}: link {p:x} received duplicates at routed data packets #{prev} and #{} (< 100 apart)", rec.no, self.routed_data));
                    }
                    self.last_dup_at.insert(*p, self.routed_data);
                    rep.count("c01.duplicate_probe_routed");
                }
            }
            if d.is_data {
                self.routed_data += 1;
            }
            // coverage: a routing decision taken while every usable uplink's backlog has reached its window
            // (window / (in-flight + queued + 1) floors to 0 on all of them)
            {
                let usable: Vec<&LinkSnap> = rec.pre.iter().filter(|l| l.usable(t, self.timeout)).collect();
                if !usable.is_empty() && usable.iter().all(|l| (l.in_flight as i64 + l.queued as i64 + 1) > l.window as i64) {
                    rep.count("c01.arms_with_every_usable_link_at_score_zero");
                }
            }
            if let Some(u) = uniq {
                self.pending.entry(u).or_default().push_back(k);
                // threshold rule: the link that just took a packet is below its regime threshold afterwards
                if let (Some(pre), Some(post)) = (find(&rec.pre, u), find(&rec.post, u)) {
                    // the property's bound is one batch of 32 datagrams, whatever the regime's own (smaller,
                    // retunable) threshold is
                    let th = MAX_BATCH;
                    if post.connected && post.queued >= th {
                        rep.violation("C01.hold.threshold-not-flushed", format!("arm#{}: link {u:x} holds {} datagrams after a routing arm (at most one batch of {th} may be held)", rec.no, post.queued));
                    }
                    // coverage: a routing arm that emptied a queue of several datagrams = a size-triggered flush
                    if pre.queued >= 1 && post.queued == 0 && post.connected {
                        rep.count(match pre.regime {
                            BatchRegime::LowActivity => "c01.flush.threshold.low_activity",
                            BatchRegime::Normal => "c01.flush.threshold.normal",
                            BatchRegime::HighLoad => "c01.flush.threshold.high_load",
                        });
                    }
                }
            }
            for p in probes {
                self.pending.entry(p).or_default().push_back(k);
            }
        }
        if let ArmKind::Flush = rec.kind
            && rec.pre.iter().filter(|l| l.queued > 0).count() >= 2
        {
            rep.count("c01.flush.timer.multi_link");
        }
        // ---- 2. arrivals ------------------------------------------------------------------
        for (cid, ip, b) in rec.rx.iter() {
            if classify_rx(b) != RxClass::Payload {
                continue;
            }
            rep.eval();
            let Some(&k) = self.by_bytes.get(b) else {
                rep.violation("C01.intact.unknown-frame", format!("arm#{} t={t}: a {}-byte frame from {ip} is not byte-identical to any datagram the client sent (first bytes {:02x?})", rec.no, b.len(), &b[..b.len().min(16)]));
                continue;
            };
            let Some(link) = *cid else {
                rep.violation("C01.copy.from-unknown-source", format!("arm#{}: datagram #{k} arrived from {ip} which is no uplink", rec.no));
                continue;
            };
            rep.count("c01.frames_matched");
            self.links_with_data.insert(link);
            if let Some(prev) = self.last_arrived.get(&link)
                && *prev >= k
                && !(inj[k].arm == inj[*prev].arm)
            {
                rep.violation("C01.order.per-link", format!("arm#{}: on link {link:x} datagram #{k} arrived after #{prev}", rec.no));
            }
            self.last_arrived.insert(link, k);
            let q = self.pending.entry(link).or_default();
            match q.iter().position(|x| *x == k) {
                Some(pos) => {
                    // entries ahead of it left the queue without arriving (handled below as loss)
                    for _ in 0..pos {
                        let lost = q.pop_front().unwrap();
                        self.popped_unexplained.insert((lost, link));
                        if self.st[lost].unexplained_at.is_none() && !self.st[lost].exempt {
                            self.st[lost].unexplained_at = Some(rec.no);
                        }
                    }
                    q.pop_front();
                }
                None if self.popped_unexplained.remove(&(k, link)) => {
                    rep.count("c01.late_arrival_resolved");
                }
                None => {
                    let s = &self.st[k];
                    let expected = s.unique_link == Some(link) || s.probe_links.contains(&link);
                    if inj[k].arm <= rec.no && (rec.established || expected) {
                        rep.violation(
                            if expected { "C01.copy.sent-twice-on-link" } else { "C01.copy.on-unrouted-link" },
                            format!("arm#{} t={t}: datagram #{k} (seq {:?}) arrived on link {link:x} where it was not pending (unique link {:?}, probe links {:?})", rec.no, inj[k].seq, s.unique_link, s.probe_links),
                        );
                    }
                }
            }
            let s = &mut self.st[k];
            if s.unique_link == Some(link) {
                if s.unique_arrived {
                    rep.violation("C01.copy.unique-copy-twice", format!("arm#{}: unique copy of datagram #{k} arrived twice", rec.no));
                }
                s.unique_arrived = true;
                if s.unexplained_at.take().is_some() {
                    rep.count("c01.late_arrival_resolved");
                }
            }
        }
        // ---- 3. conservation per link: routed = arrived + queued (+ permitted loss) --------------
        for post in rec.post.iter() {
            let id = post.conn_id;
            let pre = find(&rec.pre, id);
            let q = self.pending.entry(id).or_default();
            let queued = post.queued.max(0) as usize;
            if q.len() < queued && rec.established {
                rep.violation("C01.queue.more-queued-than-routed", format!("arm#{}: link {id:x} reports {queued} queued datagrams, monitor routed only {} not yet seen", rec.no, q.len()));
            }
            if q.len() > queued {
                // the oldest (len - queued) left the queue and did not arrive
                let was_connected = pre.is_some_and(|l| l.connected);
                let send_failure = rec.broken.contains(&id);
                let reconnected = pre.is_some_and(|l| l.sock != post.sock);
                let reg3 = matches!(&rec.kind, ArmKind::Uplink { conn_id, bytes, .. } if *conn_id == id && rc::ptype(bytes) == Some(0x9202));
                let torn_down = was_connected && !post.connected;
                let reset_while_registering = pre.is_some_and(|l| !l.connected) && matches!(rec.kind, ArmKind::Housekeeping { .. }) && pre.is_some_and(|l| l.reconnect_attempt_ms != post.reconnect_attempt_ms);
                let explained = send_failure || reconnected || reg3 || torn_down || reset_while_registering;
                let n_lost = q.len() - queued;
                for _ in 0..n_lost {
                    let k = q.pop_front().unwrap();
                    if explained {
                        self.st[k].exempt = true;
                        rep.count(if send_failure {
                            "c01.loss.exempt.send_failure"
                        } else if reg3 {
                            "c01.loss.exempt.re_registration"
                        } else {
                            "c01.loss.exempt.teardown_or_reconnect"
                        });
                    } else {
                        self.popped_unexplained.insert((k, id));
                        if self.st[k].unique_link == Some(id) && !self.st[k].unique_arrived {
                            self.st[k].unexplained_at = Some(rec.no);
                        }
                    }
                }
            }
        }
        // ---- 4. holding time ---------------------------------------------------------------------
        for post in rec.post.iter() {
            if post.queued > 32 {
                rep.violation("C01.hold.queue-over-32", format!("arm#{}: link {:x} holds {} datagrams", rec.no, post.conn_id, post.queued));
            }
            if matches!(rec.kind, ArmKind::Flush) && post.queued != 0 {
                rep.violation("C01.hold.flush-left-queue", format!("arm#{}: after the flush arm link {:x} still holds {} datagrams", rec.no, post.conn_id, post.queued));
            }
        }
        if matches!(rec.kind, ArmKind::Flush) {
            rep.count("c01.flush_arms");
        }
        if !_sim.unix_peers.is_empty() {
            for post in rec.post.iter() {
                if let Some(pre) = find(&rec.pre, post.conn_id)
                    && pre.queued + matches!(rec.kind, ArmKind::Client { .. }) as i32 > 4
                    && post.queued == 0
                    && post.connected
                {
                    rep.count("c01.short_send.flushes_over_4_datagrams");
                }
            }
        }
    }

    fn finish(&mut self, inj: &[Injected], _sim: &Sim, rep: &mut Report) {
        let mut reported = 0;
        for (k, s) in self.st.iter().enumerate() {
            if !s.obligation {
                continue;
            }
            rep.eval();
            if s.unique_link.is_some() && !s.unique_arrived && !s.exempt {
                if reported < 3 {
                    rep.violation(
                        "C01.loss.unexplained",
                        format!("datagram #{k} (seq {:?}, {} B, accepted in arm#{} at t={}) was queued on link {:x} but never arrived there and that link was not observed to fail or re-register while it was pending (left the queue in arm#{:?})", inj[k].seq, inj[k].bytes.len(), inj[k].arm, inj[k].t, s.unique_link.unwrap(), s.unexplained_at),
                    );
                }
                reported += 1;
            }
            if s.unique_arrived {
                rep.count("c01.unique_copy_delivered");
            }
        }
        if self.links_with_data.len() >= 2 {
            rep.count("c01.cases_with_two_links_carrying_data");
        }
    }
}

// =====================================================================================
// C04 — routing eligibility (shell part)
// =====================================================================================

pub struct RouteMon {
    pub timeout: u64,
}

impl Monitor for RouteMon {
    fn on_arm(&mut self, rec: &ArmRecord, inj: &[Injected], _sim: &Sim, rep: &mut Report) {
        let ArmKind::Client { inj: k } = rec.kind else { return };
        if !rec.established {
            return;
        }
        let d = &inj[k];
        let t = rec.t;
        let (uniq, probes) = routing_of(rec, d.bytes.len());
        let Some(u) = uniq else { return };
        rep.eval();
        rep.count("shell.routed_unique");
        let post = find(&rec.post, u).unwrap();
        let pre = find(&rec.pre, u);
        let failed_in_arm = rec.broken.contains(&u) && pre.is_some_and(|l| l.connected) && !post.connected;
        let view = if failed_in_arm { pre.unwrap() } else { post };
        let override_active = d.is_data && (rec.critical_open || d.retransmit);
        let some_gated = rec.post.iter().any(|l| l.gated);
        let some_silent = rec.post.iter().any(|l| l.connected && l.schedulable && l.timed_out(t, self.timeout));
        let some_inelig = rec.post.iter().any(|l| (l.connected || l.schedulable) && !l.eligible(t, self.timeout));
        if override_active {
            rep.count("shell.override.decisions");
            if some_gated {
                rep.count("shell.override.with_gated_link");
            }
            if some_silent {
                rep.count("shell.override.with_silent_unreaped_link");
            }
        }
        if some_inelig {
            rep.count("shell.routed_while_some_link_ineligible");
            let mut f = crate::prng::Fnv::new();
            for l in rec.post.iter() {
                f.u64(l.connected as u64 | (l.schedulable as u64) << 1 | (l.gated as u64) << 2 | (l.timed_out(t, self.timeout) as u64) << 3);
            }
            f.u64(override_active as u64);
            f.u64(d.is_data as u64);
            f.u64(rec.last_selected_post.map(|x| x as u64 + 1).unwrap_or(0));
            rep.distinct(f.finish());
        }
        let ok = view.connected && view.schedulable && !view.timed_out(t, self.timeout) && (failed_in_arm || !view.gated);
        if !ok {
            let how = if override_active { "override" } else { "scheduler" };
            let why = if !view.connected {
                "disconnected"
            } else if !view.schedulable {
                "registering"
            } else if view.gated {
                "stall-gated"
            } else {
                "timed-out"
            };
            rep.violation(
                &format!("C04.shell.{how}.routed-to-{why}-link"),
                format!("arm#{} t={t}: unique copy of datagram #{k} (data={}, retransmit={}, critical window open={}) was queued on link {u:x} which is {why}: connected={} schedulable={} gated={} receive age {:?} (timeout {}); all links (connected, schedulable, gated, recv age): {:?}", rec.no, d.is_data, d.retransmit, rec.critical_open, view.connected, view.schedulable, view.gated, view.last_received.map(|x| t - x), self.timeout, rec.post.iter().map(|l| (l.connected, l.schedulable, l.gated, l.last_received.map(|x| t - x))).collect::<Vec<_>>()),
            );
        }
        let _ = probes;
    }
}

// =====================================================================================
// C06 (shell part) — classic mode never applies time-based recovery
// =====================================================================================

pub struct ClassicHkMon {
    pub classic: bool,
}

impl Monitor for ClassicHkMon {
    fn on_arm(&mut self, rec: &ArmRecord, _inj: &[Injected], _sim: &Sim, rep: &mut Report) {
        for post in rec.post.iter() {
            rep.eval();
            if !(1000..=60_000).contains(&post.window) {
                rep.violation("C06.range", format!("arm#{}: link {:x} window {} outside [1000, 60000]", rec.no, post.conn_id, post.window));
            }
        }
        let ArmKind::Housekeeping { .. } = rec.kind else { return };
        if self.classic {
            rep.count("shell.classic_housekeeping_arms");
        } else {
            rep.count("shell.enhanced_housekeeping_arms");
        }
        for post in rec.post.iter() {
            let Some(pre) = find(&rec.pre, post.conn_id) else { continue };
            let reset = (pre.connected && !post.connected) || pre.sock != post.sock || pre.reconnect_attempt_ms != post.reconnect_attempt_ms;
            if reset {
                if post.window != 20_000 {
                    rep.violation("C06.reset.window-not-default", format!("arm#{}: link {:x} was torn down by housekeeping but its window is {}", rec.no, post.conn_id, post.window));
                }
                rep.count("shell.housekeeping_reset_to_default_window");
                continue;
            }
            if self.classic && post.window != pre.window {
                rep.violation("C06.classic.time-based-recovery-applied", format!("arm#{} t={}: classic-mode housekeeping changed link {:x} window {} -> {}", rec.no, rec.t, post.conn_id, pre.window, post.window));
            }
            if !self.classic {
                if post.window < pre.window {
                    rep.violation("C06.recovery.decreased-window", format!("arm#{}: enhanced housekeeping decreased window {} -> {}", rec.no, pre.window, post.window));
                }
                if post.window > pre.window {
                    rep.count("shell.enhanced_recovery_applied");
                }
            }
        }
    }
}

// =====================================================================================
// C14 — keepalives and RTT sampling
// =====================================================================================

#[derive(Default)]
struct KaLink {
    hk_without_ka: u32,
    last_ka_t: Option<u64>,
}

pub struct KeepaliveMon {
    pub timeout: u64,
    links: HashMap<u64, KaLink>,
    /// monitor's own record: a keepalive went out on this link since its last echo / reset (superset of
    /// 'an RTT probe is outstanding'); cleared when the link is torn down
    probe_sent: HashMap<u64, bool>,
}

impl KeepaliveMon {
    pub fn new(timeout: u64) -> Self {
        KeepaliveMon { timeout, links: HashMap::new(), probe_sent: HashMap::new() }
    }
}

impl Monitor for KeepaliveMon {
    fn on_arm(&mut self, rec: &ArmRecord, _inj: &[Injected], _sim: &Sim, rep: &mut Report) {
        let t = rec.t;
        // ---- every arm: smoothed RTT sane ------------------------------------------------------------
        for l in rec.post.iter() {
            if !l.smooth_rtt.is_finite() || l.smooth_rtt < 0.0 {
                rep.violation("C14.rtt.negative-or-non-finite", format!("arm#{}: link {:x} smoothed RTT {}", rec.no, l.conn_id, l.smooth_rtt));
            }
            if !l.kalman.is_finite() {
                rep.violation("C14.rtt.negative-or-non-finite", format!("arm#{}: link {:x} Kalman state {}", rec.no, l.conn_id, l.kalman));
            }
            if l.kalman < 0.0 {
                rep.count("c14.kalman_overshoot_clamped");
            }
        }
        // ---- keepalive frames on the wire -----------------------------------------------------------------
        let mut seen: HashMap<u64, u32> = HashMap::new();
        for (cid, ip, b) in rec.rx.iter() {
            if rc::ptype(b) != Some(0x9000) {
                continue;
            }
            rep.eval();
            let Some(id) = *cid else { continue };
            *seen.entry(id).or_default() += 1;
            rep.count("c14.keepalive_frames");
            if b.len() != 38 {
                rep.violation("C14.frame.length", format!("arm#{}: keepalive of {} bytes from {ip}", rec.no, b.len()));
                continue;
            }
            let ts = rc::keepalive_ts(b);
            if ts != Some(t) {
                rep.violation("C14.frame.timestamp", format!("arm#{}: keepalive carries timestamp {ts:?}, sent at virtual time {t}", rec.no));
            }
            let Some(info) = rc::keepalive_info(b) else {
                rep.violation("C14.frame.magic-or-version", format!("arm#{}: bytes 10..14 = {:02x?}", rec.no, &b[10..14]));
                continue;
            };
            let Some(pre) = find(&rec.pre, id) else { continue };
            let exp = rc::KaInfo {
                conn_id: id as u32,
                window: pre.window,
                in_flight: pre.in_flight,
                rtt_ms: info.rtt_ms,
                nak_count: pre.nak_count as u32,
                bitrate_bytes_per_sec: (pre.bps / 8.0) as u32,
            };
            // "the link's current window ... and rate": the housekeeping pass that sends the frame also runs window
            // recovery and the bitrate update for the same link; whether the frame is built before or after them is
            // not fixed by the property, so either the values at arm entry or the values at arm exit are "current"
            let exp_post = find(&rec.post, id).map(|post| rc::KaInfo { window: post.window, bitrate_bytes_per_sec: (post.bps / 8.0) as u32, ..exp });
            if info != exp && exp_post != Some(info) {
                rep.violation("C14.frame.telemetry", format!("arm#{} t={t}: keepalive telemetry {info:?} differs from the link's state at arm entry {exp:?} and at arm exit {exp_post:?}", rec.no));
            }
            if !matches!(rec.kind, ArmKind::Housekeeping { .. }) {
                rep.count("c14.keepalive_outside_housekeeping");
            }
        }
        // ---- cadence ------------------------------------------------------------------------------------------
        if let ArmKind::Housekeeping { .. } = rec.kind {
            for post in rec.post.iter() {
                let Some(pre) = find(&rec.pre, post.conn_id) else { continue };
                let st = self.links.entry(post.conn_id).or_default();
                let live_before = pre.connected && !pre.timed_out(t, self.timeout);
                let live_after = post.connected && pre.sock == post.sock;
                // a link whose socket refuses to send (injected EPIPE) cannot put a keepalive on the wire
                let can_send = !rec.broken.contains(&post.conn_id);
                if !live_before || !live_after || !can_send {
                    st.hk_without_ka = 0;
                    st.last_ka_t = None;
                    continue;
                }
                if seen.get(&post.conn_id).copied().unwrap_or(0) > 0 {
                    if let Some(prev) = st.last_ka_t {
                        rep.max("max.c14.keepalive_gap_ms", t - prev);
                    }
                    st.hk_without_ka = 0;
                    st.last_ka_t = Some(t);
                    rep.count("c14.cadence.keepalive_in_housekeeping_arm");
                } else {
                    st.hk_without_ka += 1;
                    rep.count("c14.cadence.housekeeping_arm_without_keepalive");
                    if st.hk_without_ka >= 2 {
                        rep.violation("C14.cadence.two-housekeeping-periods-without-keepalive", format!("arm#{} t={t}: link {:x} has been connected and heard from, yet {} consecutive housekeeping arms sent no keepalive (last keepalive at {:?})", rec.no, post.conn_id, st.hk_without_ka, st.last_ka_t));
                    }
                }
            }
        } else {
            // a reset outside housekeeping restarts the count
            for post in rec.post.iter() {
                if let Some(pre) = find(&rec.pre, post.conn_id)
                    && pre.connected
                    && !post.connected
                {
                    self.links.remove(&post.conn_id);
                }
            }
        }
        // ---- RTT sampling rule ------------------------------------------------------------------------------
        if let ArmKind::Uplink { conn_id, bytes, .. } = &rec.kind
            && rc::ptype(bytes) == Some(0x9000)
            && let (Some(pre), Some(post)) = (find(&rec.pre, *conn_id), find(&rec.post, *conn_id))
        {
            rep.eval();
            let ts = rc::keepalive_ts(bytes);
            let rtt = ts.map(|x| t.saturating_sub(x));
            let should = pre.waiting_ka && bytes.len() >= 10 && rtt.is_some_and(|r| r > 0 && r <= 10_000) && ts.is_some_and(|x| x < t);
            let changed = post.last_rtt_meas != pre.last_rtt_meas || post.kalman.to_bits() != pre.kalman.to_bits() || (post.proof == t && pre.proof != t);
            let ambiguous = pre.last_rtt_meas == t;
            let class = if bytes.len() < 10 {
                "truncated"
            } else if !pre.waiting_ka {
                "not_waiting"
            } else if ts == Some(0) {
                "zero_ts"
            } else if ts.is_some_and(|x| x >= t) {
                "future_or_same_ms_ts"
            } else if rtt.is_some_and(|r| r > 10_000) {
                "late_over_10s"
            } else {
                "accepted"
            };
            rep.count(&format!("c14.echo.{class}"));
            if should && !changed && !ambiguous {
                rep.violation("C14.sample.missed", format!("arm#{} t={t}: echo with RTT {rtt:?} while a probe was outstanding produced no RTT sample", rec.no));
            }
            if changed && !self.probe_sent.get(conn_id).copied().unwrap_or(false) {
                rep.violation(
                    "C14.sample.taken-without-probe-since-reset",
                    format!("arm#{} t={t}: an echo changed the RTT state of link {:x} although no keepalive has gone out on it since its last echo / reset (the implementation still considered a probe outstanding: {})", rec.no, conn_id, pre.waiting_ka),
                );
            } else if !should && changed {
                rep.violation(
                    &format!("C14.sample.taken-unlawfully.{class}"),
                    format!("arm#{} t={t}: keepalive of {} bytes (ts {ts:?}, rtt {rtt:?}, probe outstanding {}) changed the RTT state: last measurement {} -> {}, kalman {} -> {}, proof {} -> {}", rec.no, bytes.len(), pre.waiting_ka, pre.last_rtt_meas, post.last_rtt_meas, pre.kalman, post.kalman, pre.proof, post.proof),
                );
            }
            if should && post.kalman < pre.kalman - 50.0 {
                rep.count("c14.sharp_high_to_low_transition");
            }
            // any keepalive-type datagram consumes the outstanding probe
            self.probe_sent.insert(*conn_id, false);
        }
        // monitor's own probe record
        // "a keepalive went out": the link's own keepalive stamp moved to this arm's time (this also covers a
        // link whose socket refuses the send - the probe is armed when the frame is built)
        for post in rec.post.iter() {
            if let Some(pre) = find(&rec.pre, post.conn_id)
                && post.last_keepalive_sent == Some(t)
                && pre.last_keepalive_sent != Some(t)
            {
                self.probe_sent.insert(post.conn_id, true);
            }
        }
        let _ = &seen;
        for post in rec.post.iter() {
            if let Some(pre) = find(&rec.pre, post.conn_id)
                // a real link reset (teardown for recovery / reconnect): the link goes back to the registering
                // phase or gets a new socket. REG_ERR alone only clears `connected` and cancels nothing.
                && ((!pre.phase.starts_with("registering") && post.phase.starts_with("registering")) || pre.sock != post.sock)
            {
                if self.probe_sent.get(&post.conn_id).copied().unwrap_or(false) {
                    rep.count("c14.probe_cancelled_by_link_reset");
                }
                self.probe_sent.insert(post.conn_id, false);
            }
        }
    }
}

// =====================================================================================
// C05 (E1 lane) — NAK frames in closed-loop shell runs
// =====================================================================================

pub struct NakMon {
    owners: super::classic_ref::OwnerModel,
}

impl Default for NakMon {
    fn default() -> Self {
        Self::new()
    }
}

impl NakMon {
    pub fn new() -> Self {
        NakMon { owners: super::classic_ref::OwnerModel::new() }
    }
}

impl Monitor for NakMon {
    fn on_arm(&mut self, rec: &ArmRecord, inj: &[Injected], _sim: &Sim, rep: &mut Report) {
        match &rec.kind {
            ArmKind::Client { inj: k } => {
                let d = &inj[*k];
                let (uniq, _) = routing_of(rec, d.bytes.len());
                if let (Some(u), Some(s)) = (uniq, d.seq) {
                    self.owners.route(s, u, rec.t);
                }
            }
            ArmKind::Uplink { bytes, .. } if rc::ptype(bytes) == Some(0x8003) && !rec.pre_logs.is_empty() => {
                rep.count("e1.nak_frames");
                let t = rec.t;
                let mut held: Vec<(u64, std::collections::BTreeSet<i32>)> = rec.pre_logs.clone();
                let order: Vec<u64> = rec.pre.iter().map(|p| p.conn_id).collect();
                let mut charges: HashMap<u64, i32> = HashMap::new();
                let mut ambiguous = false;
                for s in rc::srt_nak(bytes) {
                    rep.eval();
                    let si = s as i32;
                    let owner = self.owners.remembered(s, t).filter(|id| order.contains(id));
                    let holders: Vec<u64> = order.iter().copied().filter(|id| held.iter().any(|(h, set)| h == id && set.contains(&si))).collect();
                    let charged = match owner {
                        Some(o) => Some(o).filter(|o| holders.contains(o)),
                        None => {
                            if holders.len() >= 2 {
                                ambiguous = true;
                            }
                            holders.first().copied()
                        }
                    };
                    if let Some(c) = charged {
                        *charges.entry(c).or_default() += 1;
                        for (h, set) in held.iter_mut() {
                            if *h == c {
                                set.remove(&si);
                            }
                        }
                        rep.count("e1.nak_entries_charged");
                    } else {
                        rep.count("e1.nak_entries_not_charged");
                    }
                }
                for post in rec.post.iter() {
                    let Some(pre) = find(&rec.pre, post.conn_id) else { continue };
                    let k = charges.get(&post.conn_id).copied().unwrap_or(0);
                    let mut w = pre.window;
                    for _ in 0..k {
                        w = (w - 100).max(1000);
                    }
                    let exp = (pre.nak_count + k, w, pre.in_flight - k);
                    let got = (post.nak_count, post.window, post.in_flight);
                    if got != exp {
                        if ambiguous {
                            rep.count("e1.nak_frame_ambiguous_fallback_accepted");
                            break;
                        }
                        rep.violation(
                            "C05.e1.nak-frame-deltas",
                            format!("arm#{} t={t}: NAK frame {:?}: link {:x} (nak_count, window, in_flight) {:?} -> {got:?}, ownership model expects {exp:?} ({k} charges)", rec.no, rc::srt_nak(bytes).iter().take(12).collect::<Vec<_>>(), post.conn_id, (pre.nak_count, pre.window, pre.in_flight)),
                        );
                    }
                }
            }
            _ => {}
        }
    }
}

// =====================================================================================
// C09 — return path: relay filter, liveness stamp, delivery proof
// =====================================================================================

pub struct ReturnPathMon;

impl Monitor for ReturnPathMon {
    fn on_arm(&mut self, rec: &ArmRecord, _inj: &[Injected], _sim: &Sim, rep: &mut Report) {
        let ArmKind::Uplink { conn_id, bytes, .. } = &rec.kind else { return };
        let b = bytes;
        let t = rec.t;
        rep.eval();
        rep.count("c09.injected");
        let ty = rc::ptype(b);
        let internal = rc::is_srtla_internal_return(b);
        let class = match ty {
            None => "short",
            Some(0x9201) => "reg2",
            Some(0x9202) => "reg3",
            Some(0x9210) => "reg_err",
            Some(0x9211) => "reg_ngp",
            Some(0x9100) => "srtla_ack",
            Some(0x9000) => "keepalive",
            Some(0x8002) => "srt_ack",
            Some(0x8003) => "srt_nak",
            Some(x) if x & 0x8000 == 0 => "srt_data",
            Some(_) => "other_control",
        };
        let Some(pre) = find(&rec.pre, *conn_id) else {
            // unknown link id: nothing may happen at all
            if !rec.client.is_empty() {
                rep.violation("C09.relay.from-unknown-link", format!("arm#{}: datagram for an unknown link id relayed {} frames", rec.no, rec.client.len()));
            }
            return;
        };
        let post = find(&rec.post, *conn_id).unwrap_or(pre);
        let state = if !pre.connected && pre.established_ms == 0 {
            "registering"
        } else if !pre.connected {
            "disconnected"
        } else if pre.timed_out(t, 5000) {
            "silent"
        } else if pre.waiting_ka {
            "awaiting_echo"
        } else if pre.phase.starts_with("warming") {
            "warming"
        } else {
            "live"
        };
        rep.count(&format!("c09.class.{class}.{state}"));
        rep.distinct(crate::prng::hash_u64s(&[ty.map(|x| x as u64).unwrap_or(70_000), b.len().min(300) as u64, rec.client_known_pre as u64, state.len() as u64 ^ (state.as_bytes()[0] as u64) << 8]));
        // ---- relay filter ---------------------------------------------------------------------------
        let should_relay = rec.client_known_pre && b.len() >= 2 && !internal;
        if should_relay {
            if rec.client.is_empty() {
                rep.violation(&format!("C09.relay.not-delivered.{class}"), format!("arm#{} t={t}: a {}-byte datagram of type {ty:02x?} arriving on a {state} link was not relayed to the SRT client (first bytes {:02x?})", rec.no, b.len(), &b[..b.len().min(12)]));
            } else {
                rep.count("c09.relayed_compared");
            }
            for c in rec.client.iter() {
                if c != b {
                    rep.violation("C09.relay.modified", format!("arm#{}: the client received {} bytes {:02x?}.. for an injected datagram of {} bytes {:02x?}..", rec.no, c.len(), &c[..c.len().min(12)], b.len(), &b[..b.len().min(12)]));
                }
            }
        } else if !rec.client.is_empty() && !internal && b.len() < 2 && rec.client_known_pre {
            // below the property's "two or more bytes": whether such a datagram is relayed is unspecified; if it
            // is, it must still be the datagram that arrived
            rep.count("c09.short_datagram_relayed_unspecified");
            for c in rec.client.iter() {
                if c != b {
                    rep.violation("C09.relay.modified", format!("arm#{}: the client received {} bytes {:02x?} for an injected {}-byte datagram {:02x?}", rec.no, c.len(), &c[..c.len().min(12)], b.len(), b));
                }
            }
        } else if !rec.client.is_empty() {
            let why = if internal {
                "srtla-internal"
            } else if b.len() < 2 {
                "shorter-than-2-bytes"
            } else {
                "client-unknown"
            };
            rep.violation(&format!("C09.relay.leaked.{why}.{class}"), format!("arm#{} t={t}: {} frame(s) reached the SRT client for a {}-byte {class} datagram (type {ty:02x?}, client known {})", rec.no, rec.client.len(), b.len(), rec.client_known_pre));
        } else if internal {
            rep.count("c09.internal_not_relayed");
        }
        // ---- liveness stamp ----------------------------------------------------------------------------------
        let registration_reply = matches!(ty, Some(0x9201) | Some(0x9202) | Some(0x9210) | Some(0x9211));
        if b.len() >= 2 && !registration_reply {
            if post.last_received != Some(t) {
                rep.violation(&format!("C09.liveness.not-stamped.{class}"), format!("arm#{} t={t}: {class} datagram ({} B) on a {state} link left last_received at {:?}", rec.no, b.len(), post.last_received));
            } else {
                rep.count("c09.liveness_stamped");
            }
        }
        // ---- delivery proof ---------------------------------------------------------------------------------------
        let acked: Vec<i32> = if ty == Some(0x9100) { rc::srtla_ack(b).into_iter().map(|x| x as i32).collect() } else { Vec::new() };
        for p in rec.post.iter() {
            let Some(q) = find(&rec.pre, p.conn_id) else { continue };
            if p.proof == q.proof {
                continue;
            }
            // proof changed on this link in this arm: must be earned
            let held = rec.pre_logs.iter().find(|(id, _)| *id == p.conn_id).map(|(_, s)| s);
            let earned_ack = held.is_some_and(|h| acked.iter().any(|s| h.contains(s)));
            let ts = rc::keepalive_ts(b);
            let answered_ka = p.conn_id == *conn_id && ty == Some(0x9000) && q.waiting_ka && b.len() >= 10 && ts.is_some_and(|x| x < t && t - x <= 10_000);
            let reset = p.proof == 0;
            if earned_ack {
                rep.count("c09.proof.earned_ack");
            } else if answered_ka {
                rep.count("c09.proof.answered_keepalive");
            } else if reset {
                rep.count("c09.proof.cleared_by_reset");
            } else {
                rep.violation(&format!("C09.proof.unearned.{class}"), format!("arm#{} t={t}: delivery proof of link {:x} moved {} -> {} on a {class} datagram ({} B) although the link neither lost a held sequence to an SRTLA ACK nor answered an outstanding keepalive probe (waiting {}, ts {ts:?})", rec.no, p.conn_id, q.proof, p.proof, b.len(), q.waiting_ka));
            }
        }
    }
}
