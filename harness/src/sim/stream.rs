//! Generic streaming driver for the E1 simulator: establishes a session through the
//! real handshake, then runs a PRNG-chosen interleaving of the four arms with a
//! cooperative sim receiver, fault plans and a virtual clock. After every arm an
//! `ArmRecord` (pre/post link snapshots, frames seen at the receiver side and at the
//! client) is handed to the monitors.

use std::collections::HashMap;
use std::net::IpAddr;

use srtla_core::config_snapshot::ConfigSnapshot;
use srtla_core::connection::batch_send::BatchRegime;

use super::receiver::{Path, SimReceiver};
use super::{Sim, link_ip};
use crate::prng::{Fnv, Rng};
use crate::refcodec as rc;
use crate::report::Report;

#[derive(Clone, Debug)]
pub struct LinkSnap {
    pub conn_id: u64,
    pub ip: IpAddr,
    pub connected: bool,
    pub schedulable: bool,
    pub gated: bool,
    pub latched: bool,
    pub queued: i32,
    pub regime: BatchRegime,
    pub in_flight: i32,
    pub window: i32,
    pub nak_count: i32,
    pub bytes_total: u64,
    pub last_received: Option<u64>,
    pub proof: u64,
    pub sock: usize,
    pub reconnect_attempt_ms: u64,
    pub failure_count: u32,
    pub established_ms: u64,
    pub grace_deadline: u64,
    pub waiting_ka: bool,
    pub last_rtt_meas: u64,
    pub kalman: f64,
    pub smooth_rtt: f64,
    pub bps: f64,
    pub last_keepalive_sent: Option<u64>,
    pub fast_recovery: bool,
    pub phase: String,
    pub gate_events: u64,
}

impl LinkSnap {
    /// heard within the configured timeout (connected links)
    pub fn timed_out(&self, now: u64, timeout: u64) -> bool {
        !self.last_received.is_some_and(|lr| now.saturating_sub(lr) < timeout)
    }
    pub fn usable(&self, now: u64, timeout: u64) -> bool {
        self.connected && self.schedulable && !self.timed_out(now, timeout)
    }
    pub fn eligible(&self, now: u64, timeout: u64) -> bool {
        self.usable(now, timeout) && !self.gated
    }
}

pub fn snapshot(sim: &Sim) -> Vec<LinkSnap> {
    sim.conns
        .iter()
        .enumerate()
        .map(|(i, c)| LinkSnap {
            conn_id: c.conn_id,
            ip: c.local_ip,
            connected: c.connected,
            schedulable: c.is_schedulable(),
            gated: c.is_stall_gated(),
            latched: c.stall_latched(),
            queued: c.batch_sender.queued_count(),
            regime: c.batch_sender.regime(),
            in_flight: c.in_flight_packets,
            window: c.window,
            nak_count: c.total_nak_count(),
            bytes_total: c.bitrate.bytes_sent_total,
            last_received: c.last_received,
            proof: c.last_ack_or_rtt_sample_ms,
            sock: sim.socket_ptr(i),
            reconnect_attempt_ms: c.reconnection.last_reconnect_attempt_ms,
            failure_count: c.reconnection.reconnect_failure_count,
            established_ms: c.reconnection.connection_established_ms,
            grace_deadline: c.reconnection.startup_grace_deadline_ms,
            waiting_ka: c.rtt.waiting_for_keepalive_response,
            last_rtt_meas: c.rtt.last_rtt_measurement_ms,
            kalman: c.rtt.kalman_rtt.value(),
            smooth_rtt: c.get_smooth_rtt_ms(),
            bps: c.bitrate.current_bitrate_bps,
            last_keepalive_sent: c.last_keepalive_sent,
            fast_recovery: c.congestion.fast_recovery_mode,
            phase: format!("{}", c.phase),
            gate_events: c.stall_gate_events(),
        })
        .collect()
}

/// Accessor-visible state of the registration manager.
#[derive(Clone, Debug, PartialEq, Eq)]
pub struct RegSnap {
    pub id: [u8; 256],
    pub pending: Option<usize>,
    pub pending_timeout_at: u64,
    pub target: Option<usize>,
    pub next_send_at: u64,
    pub broadcast_pending: bool,
    pub active: usize,
    pub has_connected: bool,
    pub probing: bool,
}

pub fn reg_snapshot(sim: &Sim) -> RegSnap {
    let r = &sim.reg;
    RegSnap { id: *r.srtla_id(), pending: r.pending_reg2_idx(), pending_timeout_at: r.pending_timeout_at_ms(), target: r.reg1_target_idx(), next_send_at: r.reg1_next_send_at_ms(), broadcast_pending: r.broadcast_reg2_pending(), active: r.active_connections(), has_connected: r.has_connected(), probing: r.is_probing() }
}

#[derive(Clone, Debug)]
pub enum ArmKind {
    Client { inj: usize },
    Uplink { conn_id: u64, bytes: Vec<u8>, what: &'static str },
    Flush,
    Housekeeping { ok: bool },
}

impl ArmKind {
    pub fn code(&self) -> u64 {
        match self {
            ArmKind::Client { .. } => 1,
            ArmKind::Uplink { .. } => 2,
            ArmKind::Flush => 3,
            ArmKind::Housekeeping { .. } => 4,
        }
    }
}

pub struct ArmRecord {
    pub no: usize,
    pub kind: ArmKind,
    pub t: u64,
    pub established: bool,
    pub pre: Vec<LinkSnap>,
    pub post: Vec<LinkSnap>,
    pub last_selected_pre: Option<usize>,
    pub last_selected_post: Option<usize>,
    /// frames read from the receiver-side socket after this arm: (conn_id of the link by source ip, ip, bytes)
    pub rx: Vec<(Option<u64>, IpAddr, Vec<u8>)>,
    pub client: Vec<Vec<u8>>,
    /// links (conn_id) whose socket write half is shut down (next send fails)
    pub broken: Vec<u64>,
    pub critical_open: bool,
    /// per-link outstanding sequence numbers before the arm (filled for NAK uplink arms only)
    pub pre_logs: Vec<(u64, std::collections::BTreeSet<i32>)>,
    pub client_known_pre: bool,
    pub reg_pre: Option<RegSnap>,
    pub reg_post: Option<RegSnap>,
}

#[derive(Clone, Debug)]
pub struct Injected {
    pub bytes: Vec<u8>,
    pub seq: Option<u32>,
    pub is_data: bool,
    pub retransmit: bool,
    pub arm: usize,
    pub t: u64,
}

pub trait Monitor {
    fn on_arm(&mut self, rec: &ArmRecord, inj: &[Injected], sim: &Sim, rep: &mut Report);
    fn finish(&mut self, _inj: &[Injected], _sim: &Sim, _rep: &mut Report) {}
    /// Called once the session is established and the initial state (e.g. a stamped
    /// window vector) is in place, before the first tick of the main loop.
    fn on_stream_start(&mut self, _sim: &Sim) {}
}

#[derive(Clone, Copy, Debug, PartialEq, Eq)]
pub enum Faults {
    None,
    /// black-holes and reply loss on some links, data loss (NAKs)
    Paths,
    /// Paths + socket send errors, duplicate REG3, REG_ERR, receiver restarts
    Heavy,
}

#[derive(Clone, Debug)]
pub struct StreamOpts {
    pub n_links: usize,
    pub cfg: ConfigSnapshot,
    pub ticks: usize,
    pub probing: bool,
    pub faults: Faults,
    pub retransmit_pct: u64,
    pub control_pct: u64,
    pub critical_windows: bool,
    pub big_jumps: bool,
    pub initial_windows: Option<Vec<i32>>,
    pub loss_permille: u64,
    pub stall_min_in_flight_small: bool,
    pub echo_fuzz: bool,
    /// scale factor (percent) on the client packet rate
    pub rate_pct: u64,
    /// uplinks are AF_UNIX datagram socket pairs with a minimal send buffer (short sendmmsg results)
    pub short_sends: bool,
}

pub struct Driver {
    pub sim: Sim,
    pub rxm: SimReceiver,
    pub inj: Vec<Injected>,
    pub by_bytes: HashMap<Vec<u8>, usize>,
    pub arm_no: usize,
    pub broken: Vec<u64>,
    pub next_seq: u32,
    pub uid: u64,
    pub arm_codes: Vec<u64>,
    pub last_hk: u64,
    pub last_flush: u64,
    pub opts: StreamOpts,
    pub capture_logs_always: bool,
    pub capture_reg: bool,
    reg_pre: Option<RegSnap>,
    client_known_pre: bool,
}

impl Driver {
    pub fn new(opts: StreamOpts, rng: &mut Rng) -> Driver {
        let ips: Vec<IpAddr> = (0..opts.n_links).map(link_ip).collect();
        let t0 = 1_000_000_000 + rng.below(1_000_000);
        let sim = Sim::new(&ips, opts.cfg, t0);
        let mut rxm = SimReceiver::new();
        rxm.loss_permille = 0;
        rxm.max_delay = *rng.pick(&[0u64, 5, 40, 40, 150]);
        Driver { sim, rxm, inj: Vec::new(), by_bytes: HashMap::new(), arm_no: 0, broken: Vec::new(), next_seq: rng.below(1 << 30) as u32, uid: 1, arm_codes: Vec::new(), last_hk: t0, last_flush: t0, opts, capture_logs_always: false, capture_reg: false, reg_pre: None, client_known_pre: false }
    }

    #[allow(clippy::too_many_arguments)]
    fn record_with_logs(&mut self, kind: ArmKind, pre: Vec<LinkSnap>, pre_logs: Vec<(u64, std::collections::BTreeSet<i32>)>, last_pre: Option<usize>, established: bool, rng: &mut Rng, mons: &mut [&mut dyn Monitor], rep: &mut Report) {
        let post = snapshot(&self.sim);
        let frames = self.sim.drain_rx();
        let client = self.sim.drain_client();
        let t = self.sim.now;
        let rx: Vec<(Option<u64>, IpAddr, Vec<u8>)> = frames.into_iter().map(|(src, b)| (self.sim.conns.iter().find(|c| c.local_ip == src.ip()).map(|c| c.conn_id), src.ip(), b)).collect();
        {
            // arm kind x batch regime x gate state x link-down state (for distinct interleaving counts)
            let reg = post.iter().map(|l| match l.regime { BatchRegime::LowActivity => 0u64, BatchRegime::Normal => 1, BatchRegime::HighLoad => 2 }).max().unwrap_or(0);
            let gated = post.iter().any(|l| l.gated) as u64;
            let down = post.iter().any(|l| !l.connected) as u64;
            self.arm_codes.push(kind.code() + 8 * gated + 16 * reg + 64 * down);
        }
        let rec = ArmRecord {
            no: self.arm_no,
            kind,
            t,
            established,
            pre,
            post,
            last_selected_pre: last_pre,
            last_selected_post: self.sim.last_selected_idx,
            rx,
            client,
            broken: self.broken.clone(),
            critical_open: self.sim.critical.is_critical_now(t),
            pre_logs,
            client_known_pre: self.client_known_pre,
            reg_pre: self.reg_pre.take(),
            reg_post: if self.capture_reg { Some(reg_snapshot(&self.sim)) } else { None },
        };
        rep.t(|| {
            format!(
                "arm#{} t={} {} | post links (conn,queued,inflight,window,gated,phase): {:?} | rx frames {} client frames {}",
                rec.no,
                rec.t,
                match &rec.kind {
                    ArmKind::Client { inj } => format!("client inj#{inj} seq {:?} retransmit {}", self.inj.get(*inj).and_then(|d| d.seq), self.inj.get(*inj).is_some_and(|d| crate::refcodec::is_retransmit(&d.bytes))),
                    ArmKind::Uplink { conn_id, what, bytes } => {
                        let nums: Vec<u32> = match crate::refcodec::ptype(bytes) {
                            Some(0x8003) => crate::refcodec::srt_nak(bytes).into_iter().take(8).collect(),
                            Some(0x9100) => crate::refcodec::srtla_ack(bytes).into_iter().take(12).collect(),
                            Some(0x8002) => crate::refcodec::srt_ack(bytes).into_iter().collect(),
                            _ => Vec::new(),
                        };
                        format!("uplink {what} ({} B) on {:x} numbers {nums:?}", bytes.len(), conn_id)
                    }
                    ArmKind::Flush => "flush".into(),
                    ArmKind::Housekeeping { ok } => format!("housekeeping ok={ok}"),
                },
                rec.post.iter().map(|l| (l.connected, l.queued, l.in_flight, l.window, l.gated, l.phase.clone())).collect::<Vec<_>>(),
                rec.rx.len(),
                rec.client.len()
            )
        });
        for m in mons.iter_mut() {
            m.on_arm(&rec, &self.inj, &self.sim, rep);
        }
        // a link whose socket was replaced is no longer broken
        let live: Vec<u64> = self.sim.conns.iter().map(|c| c.conn_id).collect();
        self.broken.retain(|id| live.contains(id));
        for (i, l) in rec.post.iter().enumerate() {
            if let Some(p) = rec.pre.iter().find(|p| p.conn_id == l.conn_id)
                && p.sock != l.sock
            {
                let _ = i;
                self.broken.retain(|id| *id != l.conn_id);
            }
        }
        // feed the sim receiver
        for (_, ip, b) in rec.rx.iter() {
            self.rxm.on_frame(rng, t, *ip, b);
        }
        self.arm_no += 1;
    }

    fn record(&mut self, kind: ArmKind, pre: Vec<LinkSnap>, last_pre: Option<usize>, established: bool, rng: &mut Rng, mons: &mut [&mut dyn Monitor], rep: &mut Report) {
        self.record_with_logs(kind, pre, Vec::new(), last_pre, established, rng, mons, rep)
    }

    pub fn arm_client(&mut self, payload: Vec<u8>, seq: Option<u32>, is_data: bool, retransmit: bool, rng: &mut Rng, mons: &mut [&mut dyn Monitor], rep: &mut Report) {
        let pre = snapshot(&self.sim);
        let last_pre = self.sim.last_selected_idx;
        let established = self.sim.reg.has_connected;
        let idx = self.inj.len();
        self.by_bytes.insert(payload.clone(), idx);
        self.inj.push(Injected { bytes: payload.clone(), seq, is_data, retransmit, arm: self.arm_no, t: self.sim.now });
        if !self.sim.arm_client(&payload) {
            rep.inconclusive("harness I/O: client arm failed".into());
        }
        self.record(ArmKind::Client { inj: idx }, pre, last_pre, established, rng, mons, rep);
    }

    pub fn arm_uplink(&mut self, conn_id: u64, bytes: Vec<u8>, what: &'static str, rng: &mut Rng, mons: &mut [&mut dyn Monitor], rep: &mut Report) {
        let pre = snapshot(&self.sim);
        let last_pre = self.sim.last_selected_idx;
        let established = self.sim.reg.has_connected;
        self.client_known_pre = self.sim.last_client_addr.is_some();
        if self.capture_reg {
            self.reg_pre = Some(reg_snapshot(&self.sim));
        }
        let pre_logs = if self.capture_logs_always || rc::ptype(&bytes) == Some(0x8003) { self.sim.conns.iter().map(|c| (c.conn_id, c.packet_log.keys().copied().collect())).collect() } else { Vec::new() };
        self.sim.arm_uplink(conn_id, &bytes);
        self.record_with_logs(ArmKind::Uplink { conn_id, bytes, what }, pre, pre_logs, last_pre, established, rng, mons, rep);
    }

    pub fn arm_flush(&mut self, rng: &mut Rng, mons: &mut [&mut dyn Monitor], rep: &mut Report) {
        let pre = snapshot(&self.sim);
        let last_pre = self.sim.last_selected_idx;
        let established = self.sim.reg.has_connected;
        self.sim.arm_flush();
        self.last_flush = self.sim.now;
        self.record(ArmKind::Flush, pre, last_pre, established, rng, mons, rep);
    }

    pub fn arm_housekeeping(&mut self, rng: &mut Rng, mons: &mut [&mut dyn Monitor], rep: &mut Report) -> bool {
        let pre = snapshot(&self.sim);
        let last_pre = self.sim.last_selected_idx;
        let established = self.sim.reg.has_connected;
        if self.capture_reg {
            self.reg_pre = Some(reg_snapshot(&self.sim));
        }
        let ok = self.sim.arm_housekeeping().is_ok();
        self.last_hk = self.sim.now;
        self.record(ArmKind::Housekeeping { ok }, pre, last_pre, established, rng, mons, rep);
        ok
    }

    /// Deliver the sim receiver's replies that are due, each as its own uplink arm.
    pub fn deliver_due(&mut self, rng: &mut Rng, mons: &mut [&mut dyn Monitor], rep: &mut Report) -> usize {
        let due = self.rxm.take_due(self.sim.now);
        let n = due.len();
        for r in due {
            if let Some(c) = self.sim.conns.iter().find(|c| c.local_ip == r.ip) {
                let id = c.conn_id;
                self.arm_uplink(id, r.bytes, r.kind, rng, mons, rep);
            }
        }
        n
    }

    /// Run the handshake until every link is connected (bounded), through real arms.
    pub fn establish(&mut self, rng: &mut Rng, mons: &mut [&mut dyn Monitor], rep: &mut Report) -> bool {
        let pre = snapshot(&self.sim);
        self.sim.startup(self.opts.probing);
        self.last_hk = self.sim.now;
        self.record(ArmKind::Housekeeping { ok: true }, pre, None, false, rng, mons, rep);
        for _ in 0..60 {
            self.sim.advance(self.rxm.max_delay + 1);
            self.deliver_due(rng, mons, rep);
            self.sim.advance(self.rxm.max_delay + 1);
            self.deliver_due(rng, mons, rep);
            if self.sim.conns.iter().all(|c| c.connected) {
                return true;
            }
            let wait = 1000 + rng.below(60);
            self.sim.advance(wait.saturating_sub(2 * self.rxm.max_delay + 2));
            self.arm_housekeeping(rng, mons, rep);
        }
        false
    }

    /// Inject one crafted keepalive echo on a random link (C14 hostile echoes).
    pub fn fuzz_echo(&mut self, rng: &mut Rng, mons: &mut [&mut dyn Monitor], rep: &mut Report) {
        let d = self;
            let i = rng.usize_below(d.sim.conns.len());
            let id = d.sim.conn_id(i);
            let now = d.sim.now;
            let info = rc::KaInfo { conn_id: 1, window: 2, in_flight: 3, rtt_ms: 4, nak_count: 5, bitrate_bytes_per_sec: 6 };
            let (bytes, what): (Vec<u8>, &'static str) = match rng.below(9) {
                0 => (rc::build_keepalive_ext(info, now - 1 - rng.below(500)), "KA(timely)"),
                1 => (rc::build_keepalive_ext(info, now - 10_001 - rng.below(10_000)), "KA(late)"),
                2 => (rc::build_keepalive_ext(info, now - 10_000), "KA(exactly 10 s)"),
                3 => {
                    let full = rc::build_keepalive_ext(info, now - 20);
                    (full[..2 + rng.usize_below(8)].to_vec(), "KA(truncated)")
                }
                4 => (rc::build_keepalive_ext(info, now + rng.below(5000)), "KA(future/same ms)"),
                5 => (rc::build_keepalive_ext(info, 0), "KA(zero ts)"),
                6 => {
                    let mut v = rc::build_keepalive10(now - 1 - rng.below(3000));
                    let tail = rng.usize_below(1490);
                    let mut t = vec![0u8; tail];
                    rng.fill(&mut t);
                    v.extend_from_slice(&t);
                    (v, "KA(arbitrary tail)")
                }
                7 => (rc::build_keepalive10(now - 1 - rng.below(200)), "KA(10 bytes)"),
                _ => {
                    // step change high -> low: a run of large then small RTTs
                    (rc::build_keepalive_ext(info, now - *rng.pick(&[2u64, 5, 900, 3000, 9000])), "KA(step)")
                }
            };
            d.arm_uplink(id, bytes.clone(), what, rng, mons, rep);
            if rng.chance(1, 4) {
                d.arm_uplink(id, bytes, "KA(duplicate)", rng, mons, rep);
            }
    }

    pub fn gen_payload(&mut self, rng: &mut Rng) -> (Vec<u8>, Option<u32>, bool, bool) {
        let uid = self.uid;
        self.uid += 1;
        if rng.below(100) < self.opts.control_pct {
            // SRT control packet from the client (top bit set, never an SRTLA type)
            let len = *rng.pick(&[16usize, 16, 20, 44, 64, 200, 1500]);
            let mut v = vec![0u8; len];
            rng.fill(&mut v);
            let t: u16 = 0x8000 | (rng.below(0x0fff) as u16);
            v[0..2].copy_from_slice(&t.to_be_bytes());
            v[4..12].copy_from_slice(&uid.to_be_bytes());
            return (v, None, false, false);
        }
        let (seq, retr) = match rng.below(40) {
            0 if self.next_seq > 64 => (self.next_seq - 1 - rng.below(60) as u32, true),
            1 => {
                self.next_seq = (self.next_seq + 2 + rng.below(50) as u32) & 0x7fff_ffff;
                (self.next_seq, false)
            }
            _ => {
                self.next_seq = (self.next_seq + 1) & 0x7fff_ffff;
                (self.next_seq, false)
            }
        };
        let retr = retr || rng.below(100) < self.opts.retransmit_pct;
        let len = match rng.below(20) {
            0 => 13 + rng.usize_below(20),
            1 => 1500,
            2 => 200 + rng.usize_below(1000),
            _ => 1316,
        };
        let mut v = vec![0u8; len];
        rng.fill(&mut v);
        v[0..4].copy_from_slice(&seq.to_be_bytes());
        v[4] = (v[4] & !0x04) | if retr { 0x04 } else { 0 };
        v[5..13].copy_from_slice(&uid.to_be_bytes());
        (v, Some(seq), true, retr)
    }
}

/// The main driver loop. Returns false if the run could not be carried out
/// (harness-level reason already recorded as inconclusive).
pub fn run_stream(opts: StreamOpts, rng: &mut Rng, mons: &mut [&mut dyn Monitor], rep: &mut Report) -> bool {
    let mut d = Driver::new(opts.clone(), rng);
    if d.sim.conns.len() != opts.n_links {
        rep.inconclusive(format!("harness I/O: only {} of {} uplinks could be created", d.sim.conns.len(), opts.n_links));
        return false;
    }
    if opts.short_sends {
        if !d.sim.use_short_send_sockets() {
            rep.inconclusive("harness I/O: AF_UNIX socket pairs for the short-send lane could not be created".into());
            return false;
        }
        rep.count("sim.short_send_sessions");
    }
    if !d.establish(rng, mons, rep) {
        rep.count("sim.establish_failed");
        rep.inconclusive("session could not be established within 60 housekeeping arms (sim receiver / harness)".into());
        return false;
    }
    rep.count("sim.sessions_established");
    if let Some(w) = &opts.initial_windows {
        for (c, x) in d.sim.conns.iter_mut().zip(w.iter()) {
            c.window = *x;
        }
    }
    d.rxm.loss_permille = opts.loss_permille;
    for m in mons.iter_mut() {
        m.on_stream_start(&d.sim);
    }
    let timeout = opts.cfg.conn_timeout_ms;
    // per-ms packet rate phases (1316-byte packets): ~100 kbit/s, 2 Mbit/s, 8 Mbit/s, 20 Mbit/s
    let rates = [0.01f64, 0.2, 0.8, 2.0];
    let mut rate = *rng.pick(&rates);
    let mut acc = 0.0f64;
    let mut hk_period = 1000 + rng.below(100);
    let mut fault_until: HashMap<IpAddr, u64> = HashMap::new();
    for tick in 0..opts.ticks {
        if tick % 400 == 0 && tick > 0 {
            rate = *rng.pick(&rates);
        }
        // --- clock ---------------------------------------------------------------
        let dt = if opts.big_jumps && rng.chance(1, 400) {
            *rng.pick(&[999u64, 1000, 1001, 3999, 4000, 4001, 4999, 5000, 5001, timeout - 1, timeout, timeout + 1, 30_000])
        } else {
            *rng.pick(&[0u64, 0, 1, 1, 1, 2, 3, 5, 14, 15, 16, 30])
        };
        d.sim.advance(dt);
        // --- faults -----------------------------------------------------------------
        if opts.faults != Faults::None {
            let now = d.sim.now;
            for (ip, until) in fault_until.clone() {
                if now >= until {
                    d.rxm.set_path(ip, Path::Healthy);
                    fault_until.remove(&ip);
                    rep.count("fault.repaired");
                }
            }
            if rng.chance(1, 600) && fault_until.len() + 1 < opts.n_links.max(2) {
                let ip = link_ip(rng.usize_below(opts.n_links));
                let p = *rng.pick(&[Path::BlackHole, Path::BlackHole, Path::NoReturn]);
                let dur = *rng.pick(&[300u64, 1500, 4000, timeout + 2000, 12_000]);
                d.rxm.set_path(ip, p);
                fault_until.insert(ip, now + dur);
                rep.count(match p {
                    Path::BlackHole => "fault.black_hole",
                    Path::NoReturn => "fault.no_return",
                    _ => "fault.other",
                });
            }
            if opts.faults == Faults::Heavy {
                if rng.chance(1, 1500) {
                    let i = rng.usize_below(d.sim.conns.len());
                    if d.sim.break_socket(i) {
                        d.broken.push(d.sim.conn_id(i));
                        rep.count("fault.socket_send_error_armed");
                    }
                }
                if rng.chance(1, 2500) {
                    let i = rng.usize_below(d.sim.conns.len());
                    let id = d.sim.conn_id(i);
                    d.arm_uplink(id, vec![0x92, 0x02], "REG3(dup)", rng, mons, rep);
                    rep.count("fault.duplicate_reg3");
                }
                if rng.chance(1, 4000) {
                    let i = rng.usize_below(d.sim.conns.len());
                    let id = d.sim.conn_id(i);
                    d.arm_uplink(id, vec![0x92, 0x10], "REG_ERR", rng, mons, rep);
                    rep.count("fault.reg_err");
                }
            }
        }
        if opts.echo_fuzz && rng.chance(1, 12) {
            d.fuzz_echo(rng, mons, rep);
        }
        if opts.critical_windows && rng.chance(1, 150) {
            let now = d.sim.now;
            d.sim.critical.extend_to(now + 5 + rng.below(200));
            rep.count("critical.window_opened");
        }
        // --- arms of this tick, in a PRNG-chosen order ----------------------------------------
        let mut order = [0u8, 1, 2, 3];
        rng.shuffle(&mut order);
        acc += rate * dt.min(50) as f64 * (opts.rate_pct as f64 / 100.0);
        if rng.chance(1, 60) {
            acc += *rng.pick(&[1.0, 8.0, 40.0, 200.0]) * (opts.rate_pct.min(100) as f64 / 100.0);
        }
        for step in order {
            match step {
                0 => {
                    let n = acc.floor() as usize;
                    acc -= n as f64;
                    for k in 0..n.min(256) {
                        let (p, seq, is_data, retr) = d.gen_payload(rng);
                        d.arm_client(p, seq, is_data, retr, rng, mons, rep);
                        // hostile interleaving inside a burst
                        if k % 8 == 7 {
                            match rng.below(12) {
                                0 => d.arm_flush(rng, mons, rep),
                                1 => {
                                    d.deliver_due(rng, mons, rep);
                                }
                                2 => d.sim.advance(1),
                                _ => {}
                            }
                        }
                    }
                }
                1 => {
                    if rng.chance(4, 5) {
                        d.deliver_due(rng, mons, rep);
                    }
                }
                2 => {
                    let since = d.sim.now.saturating_sub(d.last_flush);
                    if (since >= 15 && rng.chance(9, 10)) || rng.chance(1, 25) {
                        d.arm_flush(rng, mons, rep);
                    }
                }
                _ => {
                    if d.sim.now.saturating_sub(d.last_hk) >= hk_period && rng.chance(9, 10) {
                        let ok = d.arm_housekeeping(rng, mons, rep);
                        hk_period = 1000 + rng.below(100);
                        if opts.echo_fuzz && rng.chance(2, 3) {
                            // a hostile echo right after the probe went out (a probe is outstanding)
                            d.sim.advance(rng.below(3));
                            d.fuzz_echo(rng, mons, rep);
                        }
                        if !ok {
                            rep.count("sim.housekeeping_reported_all_links_failed");
                        }
                    }
                }
            }
        }
    }
    // quiesce: flush and deliver what is left so that end-of-run accounting is complete
    d.sim.advance(15);
    d.arm_flush(rng, mons, rep);
    for m in mons.iter_mut() {
        m.finish(&d.inj, &d.sim, rep);
    }
    for w in d.arm_codes.windows(6) {
        rep.distinct(crate::prng::hash_u64s(w) ^ 0xa5a5);
    }
    let mut f = Fnv::new();
    f.u64(d.arm_no as u64);
    rep.add("sim.arms", d.arm_no as u64);
    rep.add("sim.client_datagrams", d.inj.len() as u64);
    if !d.sim.io_errors.is_empty() {
        rep.inconclusive(format!("harness I/O errors: {:?}", &d.sim.io_errors[..d.sim.io_errors.len().min(3)]));
        return false;
    }
    true
}

/// Classify a frame seen at the receiver side: SRTLA-originated frames are
/// recognised by type AND length; everything else must be a client datagram.
#[derive(Debug, PartialEq, Eq, Clone, Copy)]
pub enum RxClass {
    Keepalive,
    Reg1,
    Reg2,
    Payload,
}

pub fn classify_rx(b: &[u8]) -> RxClass {
    match rc::ptype(b) {
        Some(0x9000) if b.len() == 38 || b.len() == 10 => RxClass::Keepalive,
        Some(0x9200) if b.len() == 258 => RxClass::Reg1,
        Some(0x9201) if b.len() == 258 => RxClass::Reg2,
        _ => RxClass::Payload,
    }
}
