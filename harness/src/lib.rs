//! Runtime-monitoring harness for irlserver/srtla_send (see /verif/DESIGN.md).
pub mod linkgen;
pub mod live;
pub mod prng;
pub mod refcodec;
pub mod report;
pub mod rt;
pub mod runner;
pub mod sim;
pub mod props;
